"""Structured program generation (guided by the reference Layouter's own state) and rendering to text."""
from __future__ import annotations

import copy

from hypothesis import strategies as st

from . import exprs, isagen, refmodel as R

ESCAPES = [(10, '\\n'), (9, '\\t'), (13, '\\r'), (0, '\\x00'), (92, '\\\\'), (0x7F, '\\x7f'), (0xE9, '\\xe9'),
           (1, '\\x01')]
PRINTABLE = [c for c in range(32, 127) if chr(c) not in '\\"\';']


# ------------------------------------------------------------------------------------------------
# rendering

def render_string(chars, q='"') -> str:
    out = ''
    for c in chars:
        if isinstance(c, int):
            ch = chr(c)
            out += ('\\' + ch) if ch == q else ch
        else:
            out += c[2]
    return q + out + q


def render_cond(item, kw) -> str:
    s = f'#{kw} ' + exprs.render(item['lhs'])
    if item.get('op') is not None:
        rhs = exprs.render(item['rhs'])
        s += f" {item['op']} " + (item['rhs_quoted'] + rhs + item['rhs_quoted'] if item.get('rhs_quoted') else rhs)
    return s


def render_item(item, sp=' ') -> str:
    t = item['t']
    if t == 'label':
        return item['name'] + ':'
    if t == 'raw':
        return item['text']       # verbatim text (fault injection only; the reference layout never sees it)
    if t == 'const':
        return f"{item['name']} {item.get('eq', '=')} " + exprs.render(item['e'], sp)
    if t == 'instr':
        return isagen.render_statement(item['mn'], item['ops'], sp=sp)
    if t == 'data':
        return item['d'] + ' ' + item.get('sep', ', ').join(exprs.render(e, sp) for e in item['vals'])
    if t == 'str':
        s = render_string(item['chars'], item.get('q', '"'))
        return s if item['d'] == 'bare' else item['d'] + ' ' + s
    if t == 'fill':
        return '.fill ' + exprs.render(item['n'], sp) + ', ' + exprs.render(item['v'], sp)
    if t == 'zero':
        return '.zero ' + exprs.render(item['n'], sp)
    if t == 'zerountil':
        return '.zerountil ' + exprs.render(item['a'], sp)
    if t == 'org':
        s = '.org ' + exprs.render(item['e'], sp)
        return s + (f' "{item["zone"]}"' if item.get('zone') else '')
    if t == 'align':
        return '.align' + ('' if item.get('e') is None else ' ' + exprs.render(item['e'], sp))
    if t == 'memzone':
        return '.memzone ' + item['zone']
    if t == 'createzone':
        return f"#create_memzone {item['name']} {item.get('start_text', item['start'])} {item.get('end_text', item['end'])}"
    if t == 'require':
        return '#require "' + item['text'] + '"'
    if t == 'define':
        return f"#define {item['name']}" + ('' if item.get('value') is None else f" {item['value']}")
    if t == 'if':
        return render_cond(item, 'if')
    if t == 'elif':
        return render_cond(item, 'elif')
    if t == 'ifdef':
        return '#ifdef ' + item['name']
    if t == 'ifndef':
        return '#ifndef ' + item['name']
    if t in ('else', 'endif', 'mute', 'unmute'):
        return '#' + (item.get('kw') or t)
    if t == 'include':
        return f'#include "{item["file"]}"'
    if t == 'comment':
        return '; ' + item.get('text', '')
    if t == 'blank':
        return ''
    raise ValueError(t)


def render_program(items, main='main.asm', sp=' ') -> dict:
    """-> {relative path: text}; included files are placed at item['path'] (default: next to the includer)."""
    files = {}

    def emit(fname, its):
        lines = []
        for it in its:
            lines.append(render_item(it, sp))
            if it['t'] == 'include' and not it.get('absent'):
                emit(it.get('path', it['file']), it['items'])       # ('absent': the named file does not exist)
        files[fname] = '\n'.join(lines) + '\n'
    emit(main, items)
    return files


def flatten(items):
    for it in items:
        yield it
        if it['t'] == 'include':
            yield from flatten(it['items'])


# ------------------------------------------------------------------------------------------------
# a small family of ISAs with instructions of differing sizes, for the layout properties

@st.composite
def layout_isa(draw, address_sizes=(8, 12, 16, 16, 16, 24, 32, 10, 18), zones=False, redefine_global=False, blocks=False):
    asz = draw(st.sampled_from(address_sizes))
    endian = draw(isagen.endians)
    top = (1 << asz) - 1
    general = {'address_size': asz, 'endian': endian, 'registers': ['a', 'x', 'hl']}
    if draw(st.booleans()):
        general['page_size'] = draw(st.sampled_from([1, 2, 4, 8, 16, 64, 256]))
    if draw(st.integers(0, 3)) == 0:
        general['cstr_terminator'] = draw(st.sampled_from([0, 1, 0x7F, 0xFF, 3]))
    if draw(st.integers(0, 2)) == 0:
        general['allow_embedded_strings'] = True
    cfg = {'description': 'layout ISA', 'general': general}
    span = min(top, 4095)
    base = draw(st.sampled_from([0, 0, (top - span) // 2, top - span]))
    pre = {}
    glo, ghi = 0, top
    if redefine_global and draw(st.booleans()):
        glo = base
        ghi = min(top, base + span)
        pre['memory_zones'] = [{'name': 'GLOBAL', 'start': glo, 'end': ghi}]
        general['origin'] = draw(st.sampled_from([glo, glo, glo + draw(st.integers(0, min(64, ghi - glo)))]))
    elif base or draw(st.integers(0, 3)) == 0:
        general['origin'] = base + draw(st.sampled_from([0, 0, 16, 100])) if base + 100 <= top else base
    if zones and draw(st.integers(0, 3)) != 0:
        zl = pre.setdefault('memory_zones', [])
        lo, hi = max(glo, base), min(ghi, base + span)
        for zn in draw(st.lists(st.sampled_from(isagen.ZONES), min_size=1, max_size=3, unique=True)):
            s = draw(st.integers(lo, hi))
            e = draw(st.integers(s, min(hi, s + draw(st.sampled_from([0, 3, 15, 63, 255, 1023])))))
            zl.append({'name': zn, 'start': s, 'end': e})
    if blocks and draw(st.integers(0, 2)) == 0:
        lo, hi = max(glo, base), min(ghi, base + span)
        n = draw(st.integers(1, 6))
        a = draw(st.integers(lo, max(lo, hi - n)))
        pre['data'] = [{'name': 'pre_blk', 'address': a, 'value': draw(st.integers(0, 255)), 'size': n}]
    if draw(st.integers(0, 3)) == 0:
        pre['constants'] = [{'name': 'PRE_K', 'value': draw(st.integers(0, 200))}]
    if pre:
        cfg['predefined'] = pre
    abytes = draw(st.sampled_from([asz, asz, -(-asz // 8) * 8]))
    oc = draw(st.sampled_from([4, 8, 8, 3, 12]))
    cfg['operand_sets'] = {
        'imm8': {'operand_values': {'imm': {'type': 'numeric', 'argument': {'size': 8, 'byte_align': draw(st.booleans())}}}},
        'imm12': {'operand_values': {'imm': {'type': 'numeric', 'argument': {'size': 12, 'byte_align': False}}}},
        'addr': {'operand_values': {'abs': {'type': 'numeric', 'argument': {'size': abytes, 'byte_align': draw(st.booleans())}}}},
        'rel': {'operand_values': {'rel': {'type': 'relative_address',
                                           'argument': {'size': 8, 'byte_align': True, 'min': -128, 'max': 127}}}},
        'relb': {'operand_values': {'rel': {'type': 'relative_address', 'use_curly_braces': True,
                                            'argument': {'size': 8, 'byte_align': True, 'min': -128, 'max': 127}}}},
        'regs': {'operand_values': {
            'r_a': {'type': 'register', 'register': 'a', 'bytecode': {'value': 0, 'size': 2}},
            'r_x': {'type': 'register', 'register': 'x', 'bytecode': {'value': 1, 'size': 2}},
            'ind_hl': {'type': 'indirect_register', 'register': 'hl', 'bytecode': {'value': 2, 'size': 2},
                       'offset': {'size': 8, 'byte_align': True}},
            'imm': {'type': 'numeric', 'bytecode': {'value': 3, 'size': 2}, 'argument': {'size': 16, 'byte_align': True}},
        }},
        'mem': {'operand_values': {
            'ind': {'type': 'indirect_numeric', 'bytecode': {'value': 1, 'size': 2}, 'argument': {'size': 16, 'byte_align': True}},
            'dfr': {'type': 'deferred_numeric', 'bytecode': {'value': 2, 'size': 2}, 'argument': {'size': 16, 'byte_align': True}},
            'imm': {'type': 'numeric', 'bytecode': {'value': 0, 'size': 2}, 'argument': {'size': 8, 'byte_align': True}},
        }},
        # a numeric enumeration ahead of registers in one set: a register name in any letter case is still the register
        'sel': {'operand_values': {
            'which': {'type': 'numeric_enumeration', 'bytecode': {'size': 4, 'value_dict': {0: 3, 1: 7, 5: 9}}},
            's_a': {'type': 'register', 'register': 'a', 'bytecode': {'value': 12, 'size': 4}},
            's_x': {'type': 'register', 'register': 'x', 'bytecode': {'value': 13, 'size': 4}},
        }},
        'idx': {'operand_values': {
            'hl_idx': {'type': 'indexed_register', 'register': 'hl', 'bytecode': {'value': 1, 'size': 2},
                       'index_operands': {
                           'ia': {'type': 'register', 'register': 'a', 'bytecode': {'value': 0, 'size': 2}},
                           'ix': {'type': 'register', 'register': 'x', 'bytecode': {'value': 1, 'size': 2}}}},
            'ind_idx': {'type': 'indirect_indexed_register', 'register': 'hl', 'bytecode': {'value': 2, 'size': 2},
                        'index_operands': {
                            'ia': {'type': 'register', 'register': 'a', 'bytecode': {'value': 2, 'size': 2}},
                            'ix': {'type': 'register', 'register': 'x', 'bytecode': {'value': 3, 'size': 2}}}},
        }},
    }
    cfg['instructions'] = {
        'ldx': {'bytecode': {'value': draw(st.integers(0, 15)), 'size': 4},
                'operands': {'count': 1, 'operand_sets': {'list': ['idx']}}},
        'nop': {'bytecode': {'value': draw(st.integers(0, (1 << oc) - 1)), 'size': oc}},
        'sel': {'bytecode': {'value': draw(st.integers(0, 15)), 'size': 4},
                'operands': {'count': 1, 'operand_sets': {'list': ['sel']}}},
        'ldi': {'bytecode': {'value': draw(st.integers(0, (1 << oc) - 1)), 'size': oc},
                'operands': {'count': 1, 'operand_sets': {'list': ['imm8']}}},
        'w12': {'bytecode': {'value': draw(st.integers(0, 15)), 'size': 4},
                'operands': {'count': 1, 'operand_sets': {'list': ['imm12']}}},
        'jmp': {'bytecode': {'value': draw(st.integers(0, (1 << oc) - 1)), 'size': oc},
                'operands': {'count': 1, 'operand_sets': {'list': ['addr']}}},
        'br': {'bytecode': {'value': draw(st.integers(0, 255)), 'size': 8},
               'operands': {'count': 1, 'operand_sets': {'list': ['rel']}}},
        'mov': {'bytecode': {'value': draw(st.integers(0, 15)), 'size': 4},
                'operands': {'count': 2, 'operand_sets': {'list': ['regs', 'regs']}}},
        'brb': {'bytecode': {'value': draw(st.integers(0, 255)), 'size': 8},
                'operands': {'count': 1, 'operand_sets': {'list': ['relb']}}},
        'ldm': {'bytecode': {'value': draw(st.integers(0, 63)), 'size': 6},
                'operands': {'count': 1, 'operand_sets': {'list': ['mem']}}},
    }
    return cfg


def window_of(isa: R.Isa):
    """(lo, hi): the part of GLOBAL the generators place code in (at most 4 KiB, around the origin)."""
    glo, ghi = isa.zones['GLOBAL']
    lo = max(glo, min(isa.origin, ghi))
    lo = max(glo, lo - 64)
    return lo, min(ghi, lo + 4095)


SYMBOL_NAMES = ['DEBUG', 'LEVEL', 'asm', 'inc1', 'inc2', 'part1', 'main']
# names that differ only in letter case are different names
GLOBAL_LABELS = ['start', 'loop', 'done', 'tbl', 'msg', 'vec', 'isr', 'amov', 'mov1', 'xa', 'hl2', 'jmp2', 'LOOP', 'Start', 'TBL']
FILE_LABELS = ['_start', '_loop', '_tmp', '_tbl', '_LOOP']
LOCAL_LABELS = ['.loop', '.done', '.l1', '.skip', '.LOOP']


class Builder:
    """Accumulates items while feeding them to a Layouter so that later choices can see the cursor."""

    def __init__(self, draw, cfg, cli_symbols=()):
        self.draw = draw
        self.cfg = cfg
        self.isa = R.Isa(cfg)
        self.lay = R.Layouter(self.isa, cli_symbols)
        self.items = []
        self.stack = [self.items]
        self.dead = None
        self.lo, self.hi = window_of(self.isa)
        self.defined = {}          # global label name -> True once defined
        self.planned = []          # global labels that will be defined (forward references allowed)
        self.nfiles = 0

    def add(self, item):
        self.stack[-1].append(item)
        if self.dead is None and item['t'] != 'include':
            try:
                self.lay.feed(item)
            except (R.Reject, R.Unspecified) as e:
                self.dead = str(e)

    def begin_include(self, fname):
        item = {'t': 'include', 'file': fname, 'items': []}
        self.stack[-1].append(item)
        self.stack.append(item['items'])
        if self.dead is None:
            try:
                self.lay.enter_file(fname)
            except (R.Reject, R.Unspecified) as e:
                self.dead = str(e)
        return item

    def end_include(self):
        self.stack.pop()
        if self.dead is None:
            self.lay.leave_file()

    # -- queries -----------------------------------------------------------------------------------
    def cursor(self):
        return self.lay.cursor() if self.dead is None else self.lo

    def zone(self):
        return self.lay.cur['zone']

    def room(self):
        z = self.lay.zones[self.zone()]
        return min(z[1], self.hi) - self.cursor() + 1

    def occupied(self):
        occ = [(ln['addr'], ln['addr'] + ln['size']) for ln in self.lay.lines if ln['has_bytes'] and ln['size'] > 0]
        occ += [(b['addr'], b['addr'] + b['size']) for b in self.lay.blocks]
        # every zone cursor region that already holds bytes counts too
        return sorted(occ)

    def free_spot(self, need, lo=None, hi=None):
        """An address in [lo, hi] with `need` free bytes after it, or None."""
        lo = self.lo if lo is None else lo
        hi = self.hi if hi is None else hi
        occ = self.occupied()
        cands = []
        cur = lo
        for s, e in occ + [(hi + 1, hi + 1)]:
            if s - cur >= need and cur + need - 1 <= hi:
                cands.append((cur, min(s - need, hi - need + 1)))
            cur = max(cur, e)
        if not cands:
            return None
        a, b = self.draw(st.sampled_from(cands))
        if b < a:
            return None
        return self.draw(st.one_of(st.just(a), st.integers(a, b)))

    # -- expressions -------------------------------------------------------------------------------
    def lit(self, v):
        return isagen._lit(v, self.draw)

    def value(self, v, consts=None):
        return isagen.value_ast(self.draw, v, consts)

    def label_ref(self, allow_forward=True):
        """AST referring to a (possibly not yet defined) global label, optionally with an offset."""
        names = [n for n in self.planned if allow_forward or self.defined.get(n)]
        if not names:
            return None
        n = self.draw(st.sampled_from(names))
        k = self.draw(st.integers(0, 5))
        if k == 0:
            return ['bin', '+', ['lab', n], self.lit(self.draw(st.integers(0, 5)))]
        if k == 1:
            return ['par', ['lab', n]]
        return ['lab', n]

    # -- item makers -------------------------------------------------------------------------------
    def instr(self, refs=True):
        d = self.draw
        kind = d(st.sampled_from(['nop', 'ldi', 'w12', 'jmp', 'jmp', 'mov', 'mov', 'ldx', 'br', 'sel', 'ldm']))
        if kind == 'ldm':
            k = d(st.sampled_from(['indnum', 'defnum', 'expr']))
            v = d(st.integers(0, 255 if k == 'expr' else 65535))
            return {'t': 'instr', 'mn': 'ldm', 'ops': [{'k': k, 'e': isagen.value_ast(d, v, None, simple=(k != 'expr'))}]}
        if kind == 'sel':
            if d(st.booleans()):
                return {'t': 'instr', 'mn': 'sel', 'ops': [{'k': 'reg', 'r': d(st.sampled_from(['a', 'x'])), 'deco': None}]}
            return {'t': 'instr', 'mn': 'sel', 'ops': [{'k': 'expr', 'e': self.lit(d(st.sampled_from([0, 1, 5])))}]}
        if kind == 'br':
            # a relative branch to a label defined shortly before (the same text encodes differently at each address)
            recent = [ln['item']['name'] for ln in self.lay.lines[-12:]
                      if ln['kind'] == 'label' and not ln['item']['name'].startswith(('.', '_'))
                      and ln['zone'] == self.zone() and 0 <= self.cursor() - ln['addr'] <= 100]
            if refs and recent and self.dead is None:
                if d(st.integers(0, 2)) == 0:
                    return {'t': 'instr', 'mn': 'brb', 'ops': [{'k': 'braced', 'e': ['lab', d(st.sampled_from(recent))]}]}
                return {'t': 'instr', 'mn': 'br', 'ops': [{'k': 'expr', 'e': ['lab', d(st.sampled_from(recent))]}]}
            kind = 'nop'
        if kind == 'ldx':
            return {'t': 'instr', 'mn': 'ldx', 'ops': [{'k': d(st.sampled_from(['idxreg', 'indidx'])), 'r': 'hl', 'deco': None,
                                                       'idx': {'k': 'reg', 'r': d(st.sampled_from(['a', 'x'])), 'deco': None}}]}
        if kind == 'nop':
            return {'t': 'instr', 'mn': 'nop', 'ops': []}
        if kind == 'ldi':
            if d(st.integers(0, 7)) == 0:
                # a quoted character that means something else outside quotes
                return {'t': 'instr', 'mn': 'ldi', 'ops': [{'k': 'expr', 'e': ['num', ord(d(st.sampled_from(';\\#:.,\'"'))), 'chr']}]}
            return {'t': 'instr', 'mn': 'ldi', 'ops': [{'k': 'expr', 'e': self.value(d(st.integers(-128, 255)))}]}
        if kind == 'w12':
            return {'t': 'instr', 'mn': 'w12', 'ops': [{'k': 'expr', 'e': self.value(d(st.integers(-2048, 4095)))}]}
        if kind == 'jmp':
            ref = self.label_ref() if refs else None
            e = ref if ref is not None else self.value(d(st.integers(self.lo, self.hi)))
            return {'t': 'instr', 'mn': 'jmp', 'ops': [{'k': 'expr', 'e': e}]}
        ops = []
        for _ in range(2):
            c = d(st.integers(0, 3))
            if c == 0:
                ops.append({'k': 'reg', 'r': 'a', 'deco': None})
            elif c == 1:
                ops.append({'k': 'reg', 'r': 'x', 'deco': None})
            elif c == 2:
                off = d(st.integers(-128, 255))
                op = {'k': 'indreg', 'r': 'hl', 'deco': None, 'sign': None, 'off': None}
                if d(st.booleans()):
                    op['sign'] = '-' if off < 0 else '+'
                    op['off'] = self.lit(abs(off)) if abs(off) < 256 else self.lit(1)
                    if op['off'][0] == 'neg':
                        op['off'] = op['off'][1]
                    if op['off'][2] in ('hex0x', 'binb'):
                        op['off'][2] = 'dec'
                ops.append(op)
            else:
                ref = self.label_ref() if refs else None
                asz = self.isa.address_size
                if ref is not None and asz <= 16:
                    ops.append({'k': 'expr', 'e': ref})
                else:
                    ops.append({'k': 'expr', 'e': self.value(d(st.integers(-32768, 65535)))})
        return {'t': 'instr', 'mn': 'mov', 'ops': ops}

    def probe(self):
        """Data line making label values observable."""
        d = self.draw
        w = d(st.sampled_from(['.2byte', '.4byte', '.2byte', '.byte', '.8byte']))
        vals = []
        for _ in range(d(st.integers(1, 3))):
            ref = self.label_ref()
            vals.append(ref if ref is not None and d(st.integers(0, 3)) else self.value(d(st.integers(-300, 70000))))
        if vals[0][0] == 'num' and vals[0][2] == 'chr':
            vals[0][2] = 'dec'
        return {'t': 'data', 'd': w, 'vals': vals}


def general_program(draw, cfg, max_steps=30, extra=(), disable=()):
    """A random program over a layout_isa() configuration -> (Builder, feature set)."""
    b = Builder(draw, cfg)
    d = draw
    b.planned = d(st.lists(st.sampled_from(GLOBAL_LABELS), min_size=1, max_size=5, unique=True))
    consts = {}
    feats = set()
    nsteps = d(st.integers(4, max_steps))
    zones = [z for z in b.lay.zones if z != 'GLOBAL']
    local_defined = set()
    muted = False
    for step in range(nsteps):
        if b.dead:
            break
        room = b.room()
        choice = d(st.sampled_from(['label', 'label', 'instr', 'instr', 'instr', 'probe', 'probe', 'fill', 'zerountil',
                                    'org', 'align', 'memzone', 'orgzone', 'mute', 'excluded', 'const', 'local', 'flabel',
                                    'string', 'lprobe', 'symbol']
                                   + list(extra)))
        if choice in disable:
            continue
        if choice == 'lprobe':
            if local_defined and room >= 8 and b.lay.cur['region'] is not None:
                n = d(st.sampled_from(sorted(local_defined)))
                b.add({'t': 'data', 'd': '.2byte', 'vals': [['lab', n]]})
                feats.add('local-label-probe')
            continue
        if choice == 'string' and room >= 24:
            # quoted text built from words that also occur as syntax elsewhere: label names with their colon,
            # mnemonics, a semicolon, the other quote character
            words = [n + ':' for n in b.planned] + ['nop', 'ldi 5', '; not a comment', "it's", 'a,b', '  ', '#if', '.org', 'x=1']
            prev = b.stack[-1][-1] if b.stack[-1] else None
            if prev is not None and prev['t'] == 'label':
                # the label right in front of the string (possibly on the same line) named inside the string
                words = [prev['name'] + ':', prev['name'] + ': ' + prev['name'] + ':'] * 3 + ['; not a comment', 'a;b'] * 2 + words
            text = ' '.join(d(st.lists(st.sampled_from(words), min_size=1, max_size=3)))[:20]
            q = d(st.sampled_from(['"', '"', "'"]))
            chars = [ord(c) for c in text if c != '\\']
            if d(st.integers(0, 3)) == 0:
                chars.append(['esc', 10, '\\n'])
            if d(st.integers(0, 3)) == 0:
                chars.append(['esc', 92, '\\\\'])      # the text ends in an escaped backslash, right before the closing quote
            if b.isa.embedded_strings and d(st.booleans()):
                # a bare double-quoted line is a terminated string where the ISA enables it
                b.add({'t': 'str', 'd': 'bare', 'chars': chars, 'q': '"'})
                feats.add('embedded-string')
            else:
                b.add({'t': 'str', 'd': d(st.sampled_from(['.byte', '.cstr', '.asciiz'])), 'chars': chars, 'q': q})
            feats.add('string')
            continue
        if choice == 'createzone':
            free = [z for z in isagen.ZONES + ['ZX', 'ZY'] if z not in b.lay.zones]
            g = b.lay.zones['GLOBAL']
            zlo, zhi = max(g[0], b.lo), min(g[1], b.hi)
            if free and zhi > zlo:
                s0 = d(st.integers(zlo, zhi))
                e0 = d(st.integers(s0, min(zhi, s0 + d(st.sampled_from([0, 1, 7, 31, 255])))))
                nots = ['dec', 'hex$', 'hex0x', 'hexH', 'bin%']
                b.add({'t': 'createzone', 'name': free[0], 'start': s0, 'end': e0,
                       'start_text': exprs.render_num(s0, d(st.sampled_from(nots))),
                       'end_text': exprs.render_num(e0, d(st.sampled_from(nots)))})
                zones.append(free[0])
                feats.add('createzone')
        elif choice == 'zone-edge-fill' and not muted:
            z = b.lay.zones[b.zone()]
            left = z[1] - b.cursor() + 1
            if 0 < left <= 300 and b.cursor() + left - 1 <= b.hi + 300:
                past = d(st.integers(0, 3)) == 0
                b.add({'t': 'fill', 'n': b.value(left + (1 if past else 0), consts), 'v': b.lit(d(st.integers(0, 255)))})
                feats.add('fill-past-zone-end' if past else 'fill-to-zone-end')
        elif choice == 'include' and len(b.stack) < 3 and b.nfiles < 3:
            if muted:
                feats.add('include-while-muted')
            b.nfiles += 1
            fname = f'inc{b.nfiles}.asm'
            if b.zone() != 'GLOBAL':
                feats.add('include-while-zone-selected')
            if b.lay.cur['region'] is not None:
                feats.add('include-while-region-open')
            saved_local = local_defined
            b.begin_include(fname)
            local_defined = set()
            for _ in range(d(st.integers(1, 5))):
                if b.dead:
                    break
                k = d(st.sampled_from(['instr', 'instr', 'probe', 'label', 'memzone', 'flabel', 'org', 'mute']))
                if k == 'mute':
                    # the mute depth is one and the same on both sides of the file boundary
                    b.add({'t': 'unmute' if muted else 'mute', 'kw': d(st.sampled_from(['emit', 'unmute'])) if muted else 'mute'})
                    muted = not muted
                    feats.add('muted')
                    feats.add('mute-change-inside-included-file')
                elif k == 'instr' and b.room() >= 6:
                    b.add(b.instr())
                elif k == 'probe' and b.room() >= 24:
                    b.add(b.probe())
                elif k == 'label':
                    undefined = [n for n in b.planned if not b.defined.get(n)]
                    if undefined:
                        n = d(st.sampled_from(undefined))
                        b.add({'t': 'label', 'name': n})
                        b.defined[n] = True
                elif k == 'flabel':
                    b.add({'t': 'label', 'name': d(st.sampled_from(FILE_LABELS))})
                elif k == 'memzone' and zones:
                    b.add({'t': 'memzone', 'zone': d(st.sampled_from(zones + ['GLOBAL']))})
                    feats.add('zone')
                elif k == 'org':
                    spot = b.free_spot(d(st.integers(8, 32)))
                    if spot is not None:
                        b.add({'t': 'org', 'e': b.value(spot, consts)})
            b.end_include()
            local_defined = saved_local
            feats.add('include')
        elif choice == 'label':
            undefined = [n for n in b.planned if not b.defined.get(n)]
            if undefined:
                n = d(st.sampled_from(undefined))
                b.add({'t': 'label', 'name': n})
                b.defined[n] = True
                local_defined = set()
        elif choice == 'local' and b.lay.cur['region'] is not None:
            free = [n for n in LOCAL_LABELS if n not in local_defined]
            if free:
                n = d(st.sampled_from(free[:2]))
                b.add({'t': 'label', 'name': n})
                local_defined.add(n)
                if room >= 8 and d(st.booleans()):
                    # the same probe text recurs in every region that defines this local name
                    b.add({'t': 'data', 'd': '.2byte', 'vals': [['lab', n]]})
                    feats.add('local-label-probe')
        elif choice == 'flabel':
            free = [n for n in FILE_LABELS if n not in b.defined]
            if free:
                n = d(st.sampled_from(free))
                b.add({'t': 'label', 'name': n})
                b.defined[n] = True
                local_defined = set()
        elif choice == 'instr' and room >= 6:
            it = b.instr()
            if it['mn'] == 'mov':
                feats.add('variable-size')
            b.add(it)
            if it['mn'] == 'br' and b.room() >= 8 and d(st.booleans()):
                # the same statement text again, a few bytes further on: other address, other offset byte
                b.add({'t': 'instr', 'mn': 'nop', 'ops': []})
                b.add(copy.deepcopy(it))
                feats.add('same-relative-statement-twice')
        elif choice == 'probe' and room >= 24:
            b.add(b.probe())
        elif choice == 'fill' and room >= 2:
            n = d(st.integers(0, min(40, room - 1)))
            earlier = sorted(k for k, v in b.defined.items() if v and not k.startswith(('.', '_')))
            earlier += [blk['name'] for blk in b.isa.data_blocks] + sorted(b.isa.constants)      # predefined names too
            if earlier and d(st.integers(0, 3)) == 0:
                # the count names an address label defined earlier (possibly in another zone): known in the first pass
                lab = ['lab', d(st.sampled_from(earlier))]
                b.add({'t': 'fill', 'n': ['bin', '-', ['bin', '+', b.lit(n), lab], lab], 'v': b.lit(d(st.integers(0, 255)))})
                feats.add('first-pass-expression-names-an-earlier-label')
            elif d(st.booleans()):
                b.add({'t': 'fill', 'n': b.value(n, consts), 'v': b.value(d(st.integers(-5, 300)))})
            else:
                b.add({'t': 'zero', 'n': b.value(n, consts)})
            feats.add('fill')
        elif choice == 'zerountil' and room >= 2:
            cur = b.cursor()
            a = d(st.integers(max(0, cur - 3), cur + min(30, room - 1)))
            b.add({'t': 'zerountil', 'a': b.value(a, consts)})
            feats.add('fill')
        elif choice == 'org':
            spot = b.free_spot(d(st.integers(8, 64)))
            if spot is not None:
                b.add({'t': 'org', 'e': b.value(spot, consts)})
                feats.add('origin')
                local_defined = set()
                if d(st.integers(0, 3)) == 0:
                    # the first line at the new address produces no bytes; bytes follow
                    b.add(d(st.sampled_from([{'t': 'fill', 'n': ['num', 0, 'dec'], 'v': ['num', 7, 'dec']}, {'t': 'zero', 'n': ['num', 0, 'dec']}])))
                    b.add({'t': 'instr', 'mn': 'nop', 'ops': []})
                    feats.add('byte-less-line-first-at-a-new-origin')
        elif choice == 'orgzone' and zones:
            zn = d(st.sampled_from(zones + ['GLOBAL']))
            z = b.lay.zones[zn]
            spot = b.free_spot(4, max(z[0], b.lo), min(z[1], b.hi))
            if spot is not None:
                b.add({'t': 'org', 'e': b.value(spot - z[0], consts), 'zone': zn})
                feats.add('origin')
                feats.add('zone')
                local_defined = set()
        elif choice == 'midlabel' and b.zone() == 'GLOBAL' and not muted:
            # a label placed at an address in the middle of an earlier line (no bytes are placed there), then back
            big = [ln for ln in b.lay.lines if ln['has_bytes'] and ln['size'] >= 3 and ln['zone'] == 'GLOBAL' and not ln['muted']]
            free = [n for n in ('mid1', 'mid2') if not b.defined.get(n)]
            if big and free and not b.dead:
                ln = d(st.sampled_from(big))
                back = b.cursor()
                b.add({'t': 'org', 'e': b.lit(ln['addr'] + d(st.integers(1, ln['size'] - 1)))})
                b.add({'t': 'label', 'name': free[0]})
                b.defined[free[0]] = True
                b.add({'t': 'org', 'e': b.lit(back)})
                local_defined = set()
                feats.add('label-inside-an-earlier-line')
        elif choice == 'zonecursor' and zones and not muted:
            # bytes of the GLOBAL zone are laid across the place where a named zone stands; that zone is then selected and
            # a line without bytes is assembled there (its address lies inside the bytes of another line)
            others = [z for z in zones if z != b.zone()]
            if others and not b.dead:
                zn = d(st.sampled_from(others))
                c = b.lay.zones[zn][2]
                if c - 2 >= b.lo and c + 4 <= b.hi and all(e <= c - 2 or s >= c + 4 for s, e in b.occupied()):
                    b.add({'t': 'org', 'e': b.lit(c - 2)})
                    b.add({'t': 'data', 'd': '.byte', 'vals': [['num', 0xC1, 'hex$'], ['num', 0xC2, 'hex$'], ['num', 0xC3, 'hex$'], ['num', 0xC4, 'hex$']]})
                    b.add({'t': 'data', 'd': '.byte', 'vals': [['num', 0xC5, 'hex$']]})
                    b.add({'t': 'memzone', 'zone': zn})
                    b.add(d(st.sampled_from([{'t': 'fill', 'n': ['num', 0, 'dec'], 'v': ['num', 7, 'dec']}, {'t': 'zero', 'n': ['num', 0, 'dec']}])))
                    local_defined = set()
                    feats.add('byte-less-line-inside-the-bytes-of-another-line')
                    spot = b.free_spot(8)
                    if spot is not None and not b.dead:
                        b.add({'t': 'org', 'e': b.lit(spot)})
        elif choice == 'orgzone-outside' and zones:
            # an origin relative to a zone that lands before its start or behind its end, and a byte placed from there
            zn = d(st.sampled_from(zones))
            z = b.lay.zones[zn]
            k = d(st.integers(1, 4))
            off = ['bin', '-', ['num', 0, 'dec'], ['num', k, 'dec']] if d(st.booleans()) else b.lit(z[1] - z[0] + k)
            b.add({'t': 'org', 'e': off, 'zone': zn})
            b.add({'t': 'data', 'd': '.byte', 'vals': [['num', 0xB1, 'hex$']]})
            feats.add('byte-after-origin-outside-its-zone')
        elif choice == 'memzone' and zones:
            zn = d(st.sampled_from(zones + ['GLOBAL']))
            b.add({'t': 'memzone', 'zone': zn})
            feats.add('zone')
            local_defined = set()
        elif choice == 'align':
            p = d(st.sampled_from([None, 2, 4, 8, 16, 3, 1, 6, 12, 10]))
            page = b.isa.page_size if p is None else p
            cur = b.cursor()
            if -(-cur // page) * page + 8 <= cur + room:
                if -(-cur // page) * page != cur:
                    feats.add('align-moves')
                else:
                    feats.add('align-on-aligned')
                b.add({'t': 'align', 'e': None if p is None else b.lit(p)})
        elif choice == 'mute':
            if not muted and d(st.integers(0, 3)) == 0:
                # an #emit/#unmute with nothing muted changes nothing (the depth does not go below zero)
                b.add({'t': 'unmute', 'kw': d(st.sampled_from(['emit', 'unmute']))})
                feats.add('stray-unmute')
            b.add({'t': 'unmute' if muted else 'mute', 'kw': d(st.sampled_from(['emit', 'unmute'])) if muted else 'mute'})
            muted = not muted
            feats.add('muted')
        elif choice == 'excluded':
            b.add({'t': 'if', 'lhs': ['num', 0, 'dec']})
            if d(st.booleans()):
                if zones and d(st.booleans()):
                    b.add({'t': 'memzone', 'zone': d(st.sampled_from(zones))})
                else:
                    b.add({'t': 'org', 'e': b.lit(d(st.integers(b.lo, b.hi)))})
                feats.add('zone-directive-in-excluded-block')
            b.add({'t': 'label', 'name': 'ghost'})
            b.add({'t': 'instr', 'mn': 'nop', 'ops': []})
            if b.defined:
                b.add({'t': 'label', 'name': sorted(b.defined)[0]})
            b.add({'t': 'endif'})
            feats.add('excluded')
        elif choice == 'symbol':
            # a preprocessor symbol (some are named like a word of an include file name) and a use of it
            free = [n for n in SYMBOL_NAMES if n not in b.lay.symbols]
            if free and room >= 4 and not b.dead:
                n = d(st.sampled_from(free))
                b.add({'t': 'define', 'name': n, 'value': str(d(st.integers(0, 200)))})
                if d(st.booleans()):
                    b.add({'t': 'data', 'd': '.byte', 'vals': [['lab', n]]})
                feats.add('symbol')
        elif choice == 'const':
            free = [n for n in isagen.CONSTS if n not in consts]
            if free:
                n = d(st.sampled_from(free))
                v = d(st.integers(0, 40))
                b.add({'t': 'const', 'name': n, 'e': b.value(v, consts), 'eq': d(st.sampled_from(['=', 'EQU']))})
                consts[n] = v
    if muted:
        b.add({'t': 'unmute', 'kw': 'unmute'})
    g = b.lay.zones['GLOBAL']
    top = (1 << b.isa.address_size) - 1
    if not b.dead and b.zone() == 'GLOBAL' and g[1] == top and 0 <= top - b.cursor() <= 600 and d(st.integers(0, 2)) == 0:
        # pad the program up to the very last address: labels defined after it stand at 2**address_size
        b.add({'t': 'zerountil', 'a': b.lit(top)})
        feats.add('padded-to-the-top-of-the-address-space')
    for n in b.planned:
        if not b.defined.get(n) and not b.dead:
            b.add({'t': 'label', 'name': n})
            b.defined[n] = True
            if b.room() >= 4:
                b.add({'t': 'instr', 'mn': 'nop', 'ops': []})
    if not any(it['t'] in ('instr', 'data', 'fill') for it in b.items):
        b.add({'t': 'instr', 'mn': 'nop', 'ops': []})
    return b, feats



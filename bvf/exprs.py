"""Numeric expression ASTs: generation, rendering to assembler text, exact evaluation, and an
independent well-formedness recogniser.  Nothing here imports bespokeasm.

AST nodes (JSON-able lists):
    ['num', value>=0, notation]   notation in dec | hex$ | hex0x | hexH | bin% | binb | chr
    ['lab', name]
    ['neg', x]
    ['bin', op, l, r]             op in * / % + - << >> & | ^
    ['byte', n, x]  ['lsb', x]
    ['par', x]                    redundant parentheses
"""
from __future__ import annotations

from fractions import Fraction

from hypothesis import strategies as st

PREC = {'*': 4, '/': 4, '%': 4, '+': 3, '-': 3, '<<': 2, '>>': 2, '&': 1, '|': 1, '^': 1}
OPS = list(PREC)
UNARY_PREC = 5

# characters usable inside a quoted-character literal on a whole source line
SAFE_CHARS = [c for c in map(chr, range(33, 127)) if c not in "'\"[]{}"]


class Undefined(Exception):
    """Ordinary arithmetic assigns no value (or the property excludes the case)."""


# ------------------------------------------------------------------------------------------------
# rendering

def render_num(value: int, notation: str, upper: bool = False) -> str:
    if notation == 'dec':
        return str(value)
    if notation == 'dec0':
        return '00' + str(value)      # leading zeros do not change a decimal literal
    hx = format(value, 'X' if upper else 'x')
    if notation == 'hex$':
        return '$' + hx
    if notation == 'hex0x':
        return '0x' + hx
    if notation == 'hexH':
        # documented form has a leading decimal digit ("08FH"); a leading letter is ambiguous with
        # identifiers and with the b-binary prefix
        if not hx[0].isdigit():
            hx = '0' + hx
        return hx + 'H'
    bn = format(value, 'b')
    if notation == 'bin%':
        return '%' + bn
    if notation == 'binb':
        return 'b' + bn
    if notation == 'chr':
        return "'" + chr(value) + "'"
    raise ValueError(notation)


def prec(node) -> int:
    k = node[0]
    if k == 'bin':
        return PREC[node[1]]
    if k == 'neg':
        return UNARY_PREC
    return 9    # atoms, functions, parenthesised


def render(node, sp=' ') -> str:
    """Minimal parentheses implied by the property's precedence / left-associativity table."""
    k = node[0]
    if k == 'num':
        return render_num(node[1], node[2], upper=(node[1] % 3 == 0))
    if k == 'lab':
        return node[1]
    if k == 'par':
        return '(' + render(node[1], sp) + ')'
    if k == 'neg':
        inner = render(node[1], sp)
        if prec(node[1]) < UNARY_PREC:
            inner = '(' + inner + ')'
        return '-' + inner
    if k == 'byte':
        return f'BYTE{node[1]}(' + render(node[2], sp) + ')'
    if k == 'lsb':
        return 'LSB(' + render(node[1], sp) + ')'
    if k == 'bin':
        op, l, r = node[1], node[2], node[3]
        ls, rs = render(l, sp), render(r, sp)
        if prec(l) < PREC[op]:
            ls = '(' + ls + ')'
        if prec(r) <= PREC[op]:
            rs = '(' + rs + ')'
        # '%' directly followed by 0/1 would lex as a binary literal: always separate it
        gap = ' ' if op == '%' else sp
        return ls + sp + op + gap + rs
    raise ValueError(k)


# ------------------------------------------------------------------------------------------------
# exact evaluation

def _float_exact(v: Fraction) -> bool:
    """v is exactly representable as an IEEE double (dyadic, 53-bit significand, normal range)."""
    if v == 0:
        return True
    d = v.denominator
    if d & (d - 1):
        return False
    n = abs(v.numerator)
    while n % 2 == 0:
        n //= 2
    return n < (1 << 53) and d < (1 << 900) and abs(v.numerator) < (1 << 900)


def evaluate(node, labels: dict):
    """-> (Fraction value, tainted) ; raises Undefined.  `tainted` = a real-quotient operator
    occurs below, so an implementation computing in binary floating point must be exact there."""
    k = node[0]
    if k == 'num':
        return Fraction(node[1]), False
    if k == 'lab':
        if node[1] not in labels:
            raise Undefined('unknown label')
        return Fraction(labels[node[1]]), False
    if k == 'par':
        return evaluate(node[1], labels)
    if k == 'neg':
        v, t = evaluate(node[1], labels)
        return -v, t
    if k in ('byte', 'lsb'):
        idx = node[1] if k == 'byte' else 0
        v, t = evaluate(node[2] if k == 'byte' else node[1], labels)
        if v.denominator != 1:
            raise Undefined('byte extraction of non-integer')
        return Fraction((int(v) >> (8 * idx)) & 0xFF), False
    op = node[1]
    a, ta = evaluate(node[2], labels)
    b, tb = evaluate(node[3], labels)
    t = ta or tb
    if op in ('&', '|', '^', '<<', '>>'):
        if a.denominator != 1 or b.denominator != 1:
            raise Undefined('bitwise on non-integer')
        a, b = int(a), int(b)
        if op in ('<<', '>>'):
            if not 0 <= b <= 256:
                raise Undefined('shift count outside 0..256')
            if a < 0:
                raise Undefined('shift of a negative value')
            return Fraction(a << b if op == '<<' else a >> b), False
        return Fraction({'&': a & b, '|': a | b, '^': a ^ b}[op]), False
    if op in ('/', '%'):
        if b == 0:
            raise Undefined('zero divisor')
        if op == '%' and (a < 0 or b < 0):
            raise Undefined('modulo with a negative operand')
        if not (_float_exact(a) and _float_exact(b)):
            raise Undefined('float-ambiguous operand')
        v = a / b if op == '/' else a % b
        if not _float_exact(v):
            raise Undefined('float-ambiguous quotient')
        return v, True
    v = {'+': a + b, '-': a - b, '*': a * b}[op]
    if t and not (_float_exact(v) and _float_exact(a) and _float_exact(b)):
        # below a real quotient an implementation may compute in binary floating point: the other operand is converted too
        raise Undefined('float-ambiguous intermediate')
    return v, t


def flatten(node, labels: dict):
    """-> (node', changed): every maximal operator subtree whose value is defined and whole is replaced by that value
    written as a plain literal (a negative one as (0 - n)).  Whatever value an expression has, it is a function of the
    values of its operands, so an implementation must give node and node' the same value wherever it gives both one -
    also where this module declines to name the value (remainder with a negative operand, shift of a negative value)."""
    k = node[0]
    if k in ('num', 'lab'):
        return node, False
    try:
        v, _ = evaluate(node, labels)
        if v.denominator == 1:
            n = int(v)
            lit = ['num', n, 'dec'] if n >= 0 else ['par', ['bin', '-', ['num', 0, 'dec'], ['num', -n, 'dec']]]
            return lit, True
    except Undefined:
        pass
    if k in ('par', 'neg', 'lsb'):
        x, c = flatten(node[1], labels)
        return [k, x], c
    if k == 'byte':
        x, c = flatten(node[2], labels)
        return ['byte', node[1], x], c
    l, cl = flatten(node[2], labels)
    r, cr = flatten(node[3], labels)
    return ['bin', node[1], l, r], cl or cr


def value_of(node, labels: dict) -> int:
    v, _ = evaluate(node, labels)
    n = v.numerator // v.denominator if v >= 0 else -((-v.numerator) // v.denominator)
    return n


# ------------------------------------------------------------------------------------------------
# non-triviality

def features(node) -> set:
    """Structural features used by the non-triviality rule."""
    out = set()

    def walk(n, parent_op=None, side=None):
        k = n[0]
        if k == 'bin':
            op = n[1]
            out.add('op:' + op)
            out.add('lvl:%d' % PREC[op])
            if parent_op is not None and PREC[parent_op] == PREC[op] and side == 'L' and \
                    (parent_op in '-/%' or parent_op in ('<<', '>>') or op != parent_op):
                out.add('same-level-chain')
            walk(n[2], op, 'L')
            walk(n[3], op, 'R')
        elif k == 'neg':
            out.add('neg')
            if parent_op is not None and side == 'L':
                out.add('neg-then-binary')
            walk(n[1])
        elif k == 'byte':
            out.add('byteN')
            walk(n[2])
        elif k == 'lsb':
            out.add('byteN')
            walk(n[1])
        elif k == 'par':
            out.add('redundant-parens')
            walk(n[1], parent_op, side)
        elif k == 'num':
            out.add('lit:' + n[2])
        elif k == 'lab':
            out.add('label')
    walk(node)
    return out


def nontrivial(node) -> bool:
    f = features(node)
    lv = {x for x in f if x.startswith('lvl:')}
    return len(lv) >= 2 or 'same-level-chain' in f or 'neg-then-binary' in f or \
        ('byteN' in f and 'neg' in f)


def size(node) -> int:
    return 1 + sum(size(c) for c in node[1:] if isinstance(c, list))


# ------------------------------------------------------------------------------------------------
# strategies

BOUNDARY = [0, 1, 2, 3, 7, 8, 9, 15, 16, 17, 127, 128, 255, 256, 257, 0x7FFF, 0x8000, 0xFFFF, 0x10000,
            0xFFFFFF, 0x7FFFFFFF, 0x80000000, 0xFFFFFFFF, (1 << 63) - 1, 1 << 63, (1 << 64) - 1]


def literals(max_value=(1 << 64) - 1, notations=('dec', 'hex$', 'hex0x', 'hexH', 'bin%', 'binb', 'chr'),
             chars=SAFE_CHARS):
    vals = st.one_of(
        st.integers(0, min(300, max_value)),
        st.sampled_from([b for b in BOUNDARY if b <= max_value]),
        st.integers(0, max_value),
    )

    @st.composite
    def lit(draw):
        n = draw(st.sampled_from(notations))
        if n == 'chr':
            return ['num', ord(draw(st.sampled_from(chars))), 'chr']
        return ['num', draw(vals), n]
    return lit()


def expressions(labels=(), max_depth=5, max_value=(1 << 64) - 1, allow_div=True, chars=SAFE_CHARS,
                funcs=True, allow_neg=True, allow_shift=True, div_bias=False):
    """Explicit-depth recursive generator (st.recursive yields mostly tiny trees)."""
    lits = literals(max_value, chars=chars)
    atom_alts = [lits, lits]
    if labels:
        atom_alts.append(st.sampled_from(sorted(labels)).map(lambda n: ['lab', n]))
    atom = st.one_of(atom_alts)
    ops = OPS if allow_div else [o for o in OPS if o not in '/%']
    if not allow_shift:
        ops = [o for o in ops if o not in ('<<', '>>')]
    if div_bias:
        ops = ops + ['/', '/', '/', '%']
    op_st = st.sampled_from(ops)
    small = st.one_of(st.integers(0, 12), st.integers(0, 12), st.integers(0, 12),
                      st.sampled_from([31, 32, 33, 63, 64, 65, 66, 72, 100, 127, 128, 130])).map(lambda v: ['num', v, 'dec'])
    kinds = ['bin'] * 7 + (['shift'] if allow_shift else []) + ['par']
    if allow_neg:
        kinds += ['neg'] * 2
    if funcs:
        kinds += ['byte', 'lsb']
    kind_st = st.sampled_from(kinds)
    depth_st = st.integers(0, max_depth)
    coin = st.integers(0, 9)

    @st.composite
    def tree(draw, depth=None):
        if depth is None:
            depth = draw(depth_st)
        if depth <= 0 or draw(coin) < 2:
            return draw(atom)
        k = draw(kind_st)
        if k == 'bin':
            op = draw(op_st)
            right = small if (op in ('<<', '>>') and draw(coin) < 8) else tree(depth - 1)
            return ['bin', op, draw(tree(depth - 1)), draw(right)]
        if k == 'shift':
            return ['bin', draw(st.sampled_from(['<<', '>>'])), draw(tree(depth - 1)), draw(small)]
        if k == 'par':
            return ['par', draw(tree(depth - 1))]
        if k == 'neg':
            return ['neg', draw(tree(depth - 1))]
        if k == 'byte':
            return ['byte', draw(st.integers(0, 9)), draw(tree(depth - 1))]
        return ['lsb', draw(tree(depth - 1))]
    return tree()


# ------------------------------------------------------------------------------------------------
# token level (malformed inputs) and the recogniser

def tokens_of(node) -> list:
    """Token list of the minimal-parenthesis rendering; each token is a string."""
    k = node[0]
    if k == 'num':
        return [render_num(node[1], node[2])]
    if k == 'lab':
        return [node[1]]
    if k == 'par':
        return ['('] + tokens_of(node[1]) + [')']
    if k == 'neg':
        inner = tokens_of(node[1])
        if prec(node[1]) < UNARY_PREC:
            inner = ['('] + inner + [')']
        return ['-'] + inner
    if k == 'byte':
        return [f'BYTE{node[1]}('] + tokens_of(node[2]) + [')']
    if k == 'lsb':
        return ['LSB('] + tokens_of(node[1]) + [')']
    op, l, r = node[1], node[2], node[3]
    ls, rs = tokens_of(l), tokens_of(r)
    if prec(l) < PREC[op]:
        ls = ['('] + ls + [')']
    if prec(r) <= PREC[op]:
        rs = ['('] + rs + [')']
    return ls + [op] + rs


def _tok_kind(t: str) -> str:
    import re
    if t in PREC:
        return 'op'
    if t not in ('(', ')') and not t.endswith('(') and not re.fullmatch(
            r"(?:\$|0x)[0-9a-fA-F]+|[0-9a-fA-F]+H|[%b][01]+|\d+|'.'|[._]?[A-Za-z_][A-Za-z0-9_]*", t):
        return 'foreign'
    if t in PREC:
        return 'op'
    if t in ('(', ')'):
        return t
    if t.endswith('('):
        return 'func'
    return 'atom'


def well_formed(tokens: list) -> bool:
    """Recursive-descent recogniser written from the grammar in the property statement."""
    pos = 0

    def peek():
        return tokens[pos] if pos < len(tokens) else None

    def atom():
        nonlocal pos
        t = peek()
        if t is None:
            return False
        k = _tok_kind(t)
        if k == 'atom':
            pos += 1
            return True
        if t == '-':
            pos += 1
            return atom()
        if k == 'func' or k == '(':
            pos += 1
            if not level(1):
                return False
            if peek() != ')':
                return False
            pos += 1
            return True
        return False

    def level(p):
        nonlocal pos
        if p > 4:
            return atom()
        if not level(p + 1):
            return False
        while peek() is not None and _tok_kind(peek()) == 'op' and PREC[peek()] == p:
            pos += 1
            if not level(p + 1):
                return False
        return True

    ok = level(1)
    return ok and pos == len(tokens)


# ------------------------------------------------------------------------------------------------
# structured token sequences (used by the coverage-guided campaign): parse to an AST or fail

class NotWellFormed(Exception):
    pass


def render_token(tok) -> str:
    k = tok[0]
    if k == 'num':
        return render_num(tok[1], tok[2])
    if k == 'lab':
        return tok[1]
    if k == 'func':
        return tok[1] + '('
    return tok[1] if k == 'op' else k


def parse_structured(tokens):
    """tokens: ('num', v, notation) | ('lab', name) | ('op', sym) | ('(',) | (')',) | ('func', 'BYTEn'|'LSB').
    Recursive descent over the grammar of the property statement -> AST, raises NotWellFormed."""
    pos = 0

    def peek():
        return tokens[pos] if pos < len(tokens) else None

    def atom():
        nonlocal pos
        t = peek()
        if t is None:
            raise NotWellFormed()
        if t[0] == 'num':
            pos += 1
            return ['num', t[1], t[2]]
        if t[0] == 'lab':
            pos += 1
            return ['lab', t[1]]
        if t[0] == 'op' and t[1] == '-':
            pos += 1
            return ['neg', atom()]
        if t[0] == 'func':
            pos += 1
            inner = level(1)
            if peek() is None or peek()[0] != ')':
                raise NotWellFormed()
            pos += 1
            return ['lsb', inner] if t[1] == 'LSB' else ['byte', int(t[1][4]), inner]
        if t[0] == '(':
            pos += 1
            inner = level(1)
            if peek() is None or peek()[0] != ')':
                raise NotWellFormed()
            pos += 1
            return ['par', inner]
        raise NotWellFormed()

    def level(p):
        nonlocal pos
        if p > 4:
            return atom()
        left = level(p + 1)
        while peek() is not None and peek()[0] == 'op' and PREC[peek()[1]] == p:
            op = peek()[1]
            pos += 1
            right = level(p + 1)
            left = ['bin', op, left, right]
        return left
    ast = level(1)
    if pos != len(tokens):
        raise NotWellFormed()
    return ast

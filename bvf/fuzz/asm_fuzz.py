#!/venv/bin/python
"""Coverage-guided campaign (atheris / libFuzzer) on the statement parser, looking for inputs whose parsing time
explodes (C14: assembly always terminates).

The byte string is decoded into 1..5 source lines over a token alphabet of the assembly language; every token may be
*amplified* (repeated up to 48 times, or a single character stretched) so that the fuzzer can grow the long runs on
which backtracking parsers blow up.  Each line is parsed through LineOjectFactory.parse_line with fresh state.  The
oracle inside the target is a per-iteration alarm: an iteration that is still running after LIMIT seconds is
interrupted, its source is appended to <outdir>/slow.jsonl, and fuzzing continues.  The parent process then re-runs
every recorded source through the real CLI and applies C14's scaling probe; only confirmed blow-ups count.
usage: asm_fuzz.py <outdir> [libFuzzer flags]"""
import json
import os
import signal
import sys
import tempfile
import time

HERE = os.path.dirname(os.path.dirname(os.path.dirname(os.path.abspath(__file__))))
sys.path.insert(0, HERE)
sys.path.insert(0, os.path.join(HERE, '.deps'))
sys.path.insert(0, os.environ.get('VERIF_REPO_SRC', '/repo/src'))

import atheris  # noqa: E402

with atheris.instrument_imports(include=['bespokeasm']):
    import bespokeasm.assembler.line_object.factory as lof  # noqa: E402
    from bespokeasm.assembler.model import AssemblerModel  # noqa: E402
from bespokeasm.assembler.label_scope import LabelScope, LabelScopeType, GlobalLabelScope  # noqa: E402
from bespokeasm.assembler.line_identifier import LineIdentifier  # noqa: E402
from bespokeasm.assembler.memory_zone.manager import MemoryZoneManager  # noqa: E402
from bespokeasm.assembler.preprocessor import Preprocessor  # noqa: E402
from bespokeasm.assembler.preprocessor.condition_stack import ConditionStack  # noqa: E402

OUT = sys.argv[1]
LIMIT = 2.0
from bvf.fuzz.asm_isa import ISA_YAML  # noqa: E402
TOKENS = ['nop', 'mov', 'jr', 'ld.x', 'mv2', 'a', 'hl', 'sp', 'sp++', 'zf', '[', ']', '[[', ']]', '{', '}', ',', ';', ':',
          '.org', '.byte', '.2byte', '.fill', '.zero', '.zerountil', '.align', '.memzone', '.cstr', '.asciiz',
          '#if', '#elif', '#else', '#endif', '#ifdef', '#ifndef', '#define', '#include', '#mute', '#unmute', '#emit',
          '#create_memzone', '#require', '"', "'", '\\"', "\\'", '\\', '0', '1', '9', '$ff', '%101', 'b1', '0x10', '1AH',
          'lbl', 'lbl:', '.loc:', '_f:', '.loc', '_f', 'SYM', 'AB', '=', '==', '!=', '>=', '<', 'EQU', '+', '-', '*', '/',
          '%', '(', ')', '<<', '>>', '&', '|', '^', 'BYTE1(', 'LSB(', 'GLOBAL', '@', '!', ' ', '\t', '  ', '_', 'A', 'F',
          'H', 'x', '.', '"GLOBAL"', '"a.asm"', '"x >= 1.0.0"']
seen = set()
stats = {'execs': 0, 'lines': 0, 'slow': 0, 'max_iteration_s': 0.0}
_tmp = tempfile.NamedTemporaryFile('w', suffix='.yaml', delete=False)
_tmp.write(ISA_YAML)
_tmp.close()
MODEL = AssemblerModel(_tmp.name, 0)
os.unlink(_tmp.name)


class Slow(Exception):
    pass


def _alarm(signum, frame):
    raise Slow()


signal.signal(signal.SIGALRM, _alarm)


def decode(fdp):
    lines = []
    for _ in range(fdp.ConsumeIntInRange(1, 5)):
        parts = []
        for _ in range(fdp.ConsumeIntInRange(1, 9)):
            t = TOKENS[fdp.ConsumeIntInRange(0, len(TOKENS) - 1)]
            amp = fdp.ConsumeIntInRange(0, 7)
            if amp >= 6:
                t = t * fdp.ConsumeIntInRange(2, 48)
            parts.append(t)
            if fdp.ConsumeBool():
                parts.append(' ')
        lines.append(''.join(parts))
    return lines


def parse(lines):
    LabelScope._global_scope = None
    gscope = GlobalLabelScope(MODEL.registers)
    fscope = LabelScope(LabelScopeType.FILE, gscope, 'fuzz.asm')
    mz = MemoryZoneManager(MODEL.address_size, 0, [])
    pp = Preprocessor([])
    cs = ConditionStack()
    for n, line in enumerate(lines, 1):
        text = line.strip()
        if not text or text.startswith('#include'):
            continue
        stats['lines'] += 1
        try:
            lof.LineOjectFactory.parse_line(LineIdentifier(n, 'fuzz.asm'), text, MODEL, fscope, mz.global_zone, mz, pp, cs, 0)
        except Slow:
            raise
        except (Exception, SystemExit):
            pass


def TestOneInput(data):
    fdp = atheris.FuzzedDataProvider(data)
    lines = decode(fdp)
    stats['execs'] += 1
    if stats['execs'] % 500 == 0:
        _dump()
    t0 = time.monotonic()
    signal.setitimer(signal.ITIMER_REAL, LIMIT)
    try:
        parse(lines)
    except Slow:
        src = '\n'.join(lines) + '\n'
        key = hash(src)
        stats['slow'] += 1
        if key not in seen and len(seen) < 40:
            seen.add(key)
            with open(os.path.join(OUT, 'slow.jsonl'), 'a') as f:
                f.write(json.dumps({'source': src}) + '\n')
    finally:
        signal.setitimer(signal.ITIMER_REAL, 0)
        dt = time.monotonic() - t0
        if dt > stats['max_iteration_s']:
            stats['max_iteration_s'] = round(dt, 3)


def _dump():
    with open(os.path.join(OUT, 'stats.json'), 'w') as f:
        json.dump(stats, f)


if __name__ == '__main__':
    os.makedirs(OUT, exist_ok=True)
    atheris.Setup([sys.argv[0]] + sys.argv[2:], TestOneInput)
    atheris.Fuzz()

#!/venv/bin/python
"""Coverage-guided campaign (atheris / libFuzzer) on the expression parser, with the C07 oracle inside the target.

The byte string is decoded into a *structured* token sequence over the expression alphabet (so the fuzzer reaches the
parser instead of dying in the tokeniser); an independent parser/evaluator (bvf.exprs) decides the expected outcome.
Disagreements are appended to <outdir>/findings.jsonl (one per signature) and fuzzing continues; nothing is raised, so
libFuzzer does not stop at the first one.   usage: expr_fuzz.py <outdir> [libFuzzer flags]"""
import json
import os
import sys

HERE = os.path.dirname(os.path.dirname(os.path.dirname(os.path.abspath(__file__))))
sys.path.insert(0, HERE)
sys.path.insert(0, os.path.join(HERE, '.deps'))
sys.path.insert(0, os.environ.get('VERIF_REPO_SRC', '/repo/src'))

import atheris  # noqa: E402

with atheris.instrument_imports(include=['bespokeasm.expression', 'bespokeasm.utilities']):
    import bespokeasm.expression as bexpr  # noqa: E402
from bespokeasm.assembler.label_scope import GlobalLabelScope  # noqa: E402
from bespokeasm.assembler.line_identifier import LineIdentifier  # noqa: E402
from bvf import exprs  # noqa: E402

OUT = sys.argv[1]
LABELS = {'alpha': 5, 'beta': 0x1234, 'gamma_1': 255, 'zed': 0, 'omega': (1 << 40) + 3, 'kappa': 1}
LID = LineIdentifier(1, 'fuzz')
SCOPE = GlobalLabelScope(set())
for _k, _v in LABELS.items():
    SCOPE.set_label_value(_k, _v, LID)
OPS = list(exprs.PREC)
NOTATIONS = ['dec', 'hex$', 'hex0x', 'hexH', 'bin%', 'binb', 'chr']
NAMES = sorted(LABELS)
seen = set()
stats = {'execs': 0, 'wellformed': 0, 'malformed': 0, 'undefined': 0}


def decode(fdp):
    toks = []
    n = fdp.ConsumeIntInRange(1, 28)
    for _ in range(n):
        k = fdp.ConsumeIntInRange(0, 11)
        if k <= 3:
            nt = NOTATIONS[fdp.ConsumeIntInRange(0, len(NOTATIONS) - 1)]
            if nt == 'chr':
                c = fdp.ConsumeIntInRange(33, 126)
                if chr(c) in "'\\":
                    c = 65
                toks.append(('num', c, 'chr'))
            else:
                width = fdp.ConsumeIntInRange(1, 8)
                toks.append(('num', fdp.ConsumeIntInRange(0, (1 << (8 * width)) - 1), nt))
        elif k == 4:
            toks.append(('lab', NAMES[fdp.ConsumeIntInRange(0, len(NAMES) - 1)]))
        elif k <= 8:
            toks.append(('op', OPS[fdp.ConsumeIntInRange(0, len(OPS) - 1)]))
        elif k == 9:
            toks.append(('(',))
        elif k == 10:
            toks.append((')',))
        else:
            f = fdp.ConsumeIntInRange(0, 10)
            toks.append(('func', 'LSB' if f == 10 else f'BYTE{f}'))
    return toks


def record(sig, text, want, got):
    if sig in seen:
        return
    seen.add(sig)
    with open(os.path.join(OUT, 'findings.jsonl'), 'a') as f:
        f.write(json.dumps({'signature': sig, 'text': text, 'expected': want, 'got': got}) + '\n')


def TestOneInput(data):
    fdp = atheris.FuzzedDataProvider(data)
    toks = decode(fdp)
    text = ' '.join(exprs.render_token(t) for t in toks)
    stats['execs'] += 1
    if stats['execs'] % 2000 == 0:
        _dump()
    try:
        ast = exprs.parse_structured(toks)
    except exprs.NotWellFormed:
        ast = None
    want = None
    if ast is not None:
        try:
            want = exprs.value_of(ast, LABELS)
        except exprs.Undefined:
            # e.g. a shift by 2^40: not evaluated by the tool either (it would try to build the number)
            stats['undefined'] += 1
            return
        except RecursionError:
            return
    try:
        got = ('value', bexpr.parse_expression(LID, text).get_value(SCOPE, LID))
    except (Exception, SystemExit) as e:
        got = ('rejected', type(e).__name__)
    if ast is None:
        stats['malformed'] += 1
        if got[0] == 'value':
            record('C07/malformed-given-a-value', text, 'rejected', list(got))
        return
    stats['wellformed'] += 1
    if got[0] != 'value':
        record('C07/wellformed-rejected' + ('/with-unary-minus' if 'neg' in exprs.features(ast) else ''), text, want, list(got))
    elif got[1] != want:
        f = exprs.features(ast)
        tag = 'with-unary-minus' if 'neg' in f else 'with-byte-extraction' if 'byteN' in f else 'binary-operators-only'
        record('C07/wrong-value/' + tag, text, want, list(got))


def _dump():
    with open(os.path.join(OUT, 'stats.json'), 'w') as f:
        json.dump(stats, f)


if __name__ == '__main__':
    os.makedirs(OUT, exist_ok=True)
    import atexit
    atheris.Setup([sys.argv[0]] + sys.argv[2:], TestOneInput)
    try:
        atheris.Fuzz()
    finally:
        _dump()

"""ISA definition used by the statement-parser fuzz campaign."""
ISA_YAML = '''
general: {address_size: 16, registers: [a, hl, sp], allow_embedded_strings: true}
operand_sets:
  regs:
    operand_values:
      r_a: {type: register, register: a, bytecode: {value: 0, size: 2}}
      r_s: {type: register, register: sp, bytecode: {value: 2, size: 2}, decorator: {type: plus_plus, is_prefix: false}}
      ind: {type: indirect_register, register: hl, bytecode: {value: 1, size: 2}, offset: {size: 8, byte_align: true}}
      imm: {type: numeric, bytecode: {value: 3, size: 2}, argument: {size: 16, byte_align: true}}
  rel:
    operand_values:
      r: {type: relative_address, use_curly_braces: true, argument: {size: 8, byte_align: true}}
      e: {type: enumeration, argument: {size: 8, byte_align: true, value_dict: {zf: 1, nz: 2}}}
  idx:
    operand_values:
      i: {type: indirect_indexed_register, register: hl, bytecode: {value: 1, size: 2}, index_operands: {ia: {type: register, register: a, bytecode: {value: 0, size: 2}}}}
      x: {type: indexed_register, register: sp, bytecode: {value: 0, size: 2}, index_operands: {ia: {type: register, register: a, bytecode: {value: 0, size: 2}}}}
      n: {type: indirect_numeric, bytecode: {value: 2, size: 2}, argument: {size: 16, byte_align: true}}
      d: {type: deferred_numeric, bytecode: {value: 3, size: 2}, argument: {size: 16, byte_align: true}}
      b: {type: numeric_bytecode, bytecode: {size: 3, min: 0, max: 7}}
instructions:
  nop: {bytecode: {value: 0, size: 8}}
  mov: {bytecode: {value: 1, size: 4}, operands: {count: 2, operand_sets: {list: [regs, regs]}}}
  jr: {bytecode: {value: 2, size: 8}, operands: {count: 1, operand_sets: {list: [rel]}}}
  ld.x: {bytecode: {value: 3, size: 4}, operands: {count: 1, operand_sets: {list: [idx]}}}
macros:
  mv2:
    - operands: {count: 1, operand_sets: {list: [regs]}}
      instructions: ["mov a, @OP(0)", "nop"]
'''

"""Decoders for the human-readable output formats -> {address: byte}. Written from the format definitions
(Intel HEX record structure, the IntelHex dump grid, the minhex address/':' rows, the listing columns)."""
from __future__ import annotations

import re


class DecodeError(Exception):
    pass


def intel_hex(text: str) -> dict:
    mem = {}
    base = 0
    eof = False
    for ln in text.splitlines():
        ln = ln.strip()
        if not ln:
            continue
        if eof:
            raise DecodeError('record after EOF')
        if not ln.startswith(':'):
            raise DecodeError('record without colon: ' + ln[:20])
        try:
            raw = bytes.fromhex(ln[1:])
        except ValueError:
            raise DecodeError('non-hex record')
        if len(raw) < 5 or raw[0] != len(raw) - 5:
            raise DecodeError('bad record length')
        if sum(raw) & 0xFF:
            raise DecodeError('bad checksum')
        n, addr, typ, data = raw[0], (raw[1] << 8) | raw[2], raw[3], raw[4:-1]
        if typ == 0:
            for i, b in enumerate(data):
                a = base + ((addr + i) & 0xFFFF if base & 0xFFFF == 0 and False else addr + i)
                if a in mem:
                    raise DecodeError('address written twice')
                mem[a] = b
        elif typ == 1:
            eof = True
        elif typ == 2:
            base = ((data[0] << 8) | data[1]) << 4
        elif typ == 4:
            base = ((data[0] << 8) | data[1]) << 16
        elif typ in (3, 5):
            pass
        else:
            raise DecodeError('unknown record type')
    if not eof:
        raise DecodeError('missing EOF record')
    return mem


def hex_dump(text: str) -> dict:
    mem = {}
    for ln in text.splitlines():
        if not ln.strip():
            continue
        m = re.match(r'^([0-9A-Fa-f]+)\s\s((?:(?:[0-9A-Fa-f]{2}|--)\s){1,16})\s*\|', ln)
        if not m:
            raise DecodeError('unrecognised dump row: ' + ln[:40])
        a = int(m.group(1), 16)
        for i, cell in enumerate(m.group(2).split()):
            if cell != '--':
                mem[a + i] = int(cell, 16)
    return mem


def minhex(text: str, default_address=None) -> dict:
    mem = {}
    addr = default_address
    for ln in text.splitlines():
        if not ln.strip():
            continue
        if ln.startswith(':'):
            for cell in ln[1:].split():
                if addr is None:
                    raise DecodeError('bytes before any address')
                if addr in mem:
                    raise DecodeError('address written twice')
                mem[addr] = int(cell, 16)
                addr += 1
        else:
            addr = int(ln.strip(), 16)
    return mem


def listing(text: str):
    """-> (memory map, rows [(file, line_no, address, bytes)])"""
    mem = {}
    rows = []
    cur_file = None
    last = None
    for ln in text.splitlines():
        if ln.startswith('File: '):
            cur_file = ln[6:]
            last = None
            continue
        if not ln.strip() or set(ln.strip()) <= set('-+'):
            continue
        parts = ln.split('|', 3)
        if len(parts) < 4:
            raise DecodeError('unrecognised listing row: ' + ln[:40])
        c0, c1, c2 = parts[0].strip(), parts[1].strip(), parts[2].strip()
        if c0 == 'line':
            continue
        data = bytes(int(x, 16) for x in c2.split()) if c2 else b''
        if c0:
            a = int(c1, 16) if c1 else None
            last = [cur_file, int(c0), a, bytearray(data)]
            rows.append(last)
        else:
            if last is None:
                raise DecodeError('continuation row without a statement row')
            last[3].extend(data)
    for f, n, a, data in rows:
        for i, b in enumerate(data):
            if a is None:
                raise DecodeError('bytes without an address')
            if a + i in mem:
                raise DecodeError(f'address {a + i:#x} described twice')
            mem[a + i] = b
    return mem, [(f, n, a, bytes(d)) for f, n, a, d in rows]

"""Exhaustive lattice over quoted-character literals, statement positions and comment texts.

The last genuine defects of the comment / operand splitters were all found in one narrow region of the input space: a
quoted character that is itself a quote, a semicolon, a comma or a backslash, next to another such literal or to a
comment holding such characters.  Random generation reaches that region once in 10^5 cases; it is small enough to be
enumerated completely.  Two finite families, both decided against bytes that are known by construction (the opcode and
the character codes):

  values(...)    statements without a comment: every pair of literals from a tricky set, and every printable character
                 next to every tricky one, as the operands of a one- and a two-operand instruction and as the values of
                 .byte                                                           (used by C07: a literal denotes its value)
  comments(L)    the tricky statements followed by every comment text of length <= L over a seven-character alphabet,
                 directly or after a blank                                       (used by C18: a comment carries no meaning)

Statements are assembled in batches (one program, one statement per line); a batch whose image is not the expected
concatenation is re-run statement by statement to find the failing ones.
"""
from __future__ import annotations

import itertools
import json
import multiprocessing

from . import runner

ISA = {
    'general': {'address_size': 16, 'endian': 'little', 'registers': ['a']},
    'operand_sets': {'imm8': {'operand_values': {'v': {'type': 'numeric', 'argument': {'size': 8, 'byte_align': True}}}}},
    'instructions': {
        'nop': {'bytecode': {'value': 0, 'size': 8}},
        'ldi': {'bytecode': {'value': 0xA5, 'size': 8}, 'operands': {'count': 1, 'operand_sets': {'list': ['imm8']}}},
        'put2': {'bytecode': {'value': 0xB6, 'size': 8},
                 'operands': {'count': 2, 'operand_sets': {'list': ['imm8', 'imm8']}}},
    },
}
ISA_TEXT = json.dumps(ISA)
TRICKY = ["'", ';', ',', '\\', '"', 'a', ' ', '#']
COMMENT_ALPHABET = ["'", '"', ';', '\\', ',', 'a', ' ']
BATCH = 24
STRING_BOUNDS = {'quick': (3, 1), 'thorough': (4, 2)}      # (elements per string, comment length)


def lit(c: str) -> str:
    return "'" + c + "'"


def ambiguous(line: str, data_directive: bool) -> bool:
    """Two well-formed readings exist (the literal '\\' against a string that begins with an escaped quote); the property
    texts rank neither, such lines are not asserted."""
    p = line.find("'\\'")
    while p >= 0:
        rest = line[p + 3:]
        if data_directive and "'" in rest.split(';', 1)[0]:
            return True            # .byte '\', 'a' : also the string  \', 'a
        if rest.startswith(';') and "'" in rest:
            return True            # ldi '\';'x : also a string that begins  \';
        # read from p as a single-quoted string with backslash escapes: does it close exactly at the end of the line?
        i = p + 1
        while i < len(line) and line[i] != "'":
            i += 2 if line[i] == '\\' else 1
        if i < len(line) and line[i + 1:].strip() == '':
            return True
        p = line.find("'\\'", p + 3)
    return False


def statements(pairs):
    """pairs: iterable of (x, y) characters -> (text, expected bytes, is data directive)"""
    seen = set()
    for x, y in pairs:
        for text, exp, data in ((f'ldi {lit(x)}', [0xA5, ord(x)], False), (f'.byte {lit(x)}', [ord(x)], True),
                                (f'put2 {lit(x)}, {lit(y)}', [0xB6, ord(x), ord(y)], False),
                                (f'.byte {lit(x)}, {lit(y)}', [ord(x), ord(y)], True),
                                (f'q{len(seen)}: ldi {lit(x)}', [0xA5, ord(x)], False)):
            if text.split(':')[-1] not in seen:
                seen.add(text.split(':')[-1])
                yield text, exp, data


def values(tier):
    # brackets and braces inside a quoted character are left out (operand grammar; no listed property fixes the outcome)
    printable = [chr(c) for c in range(32, 127) if chr(c) not in '[]{}']
    pairs = list(itertools.product(TRICKY, repeat=2))
    pairs += [(c, t) for c in printable for t in TRICKY] + [(t, c) for c in printable for t in TRICKY]
    if tier == 'thorough':
        pairs += list(itertools.product(printable, repeat=2))
    out = []
    for text, exp, data in statements(pairs):
        if not ambiguous(text, data):
            out.append({'line': text, 'bytes': exp})
    return out


def comments(L):
    texts = [''.join(t) for n in range(L + 1) for t in itertools.product(COMMENT_ALPHABET, repeat=n)]
    out, skipped = [], 0
    for text, exp, data in statements(itertools.product(TRICKY, repeat=2)):
        if text.startswith('q'):
            continue
        if ambiguous(text, data):
            continue
        for gap in ('', ' ', '\t'):
            for c in texts:
                line = text + gap + ';' + c
                if ambiguous(line, data):
                    skipped += 1
                    continue
                out.append({'line': line, 'bytes': exp, 'stmt': text})
    return out, skipped


def joins():
    """Two statements of quoted characters written on one line (C18: consecutive instructions on one line)."""
    out = []
    for x, y in itertools.product(TRICKY, repeat=2):
        for sep in (' ', '  ', '\t'):
            out.append({'line': f'ldi {lit(x)}{sep}ldi {lit(y)}', 'bytes': [0xA5, ord(x), 0xA5, ord(y)]})
            out.append({'line': f'put2 {lit(x)}, {lit(y)}{sep}nop', 'bytes': [0xB6, ord(x), ord(y), 0]})
            out.append({'line': f'nop{sep}put2 {lit(x)}, {lit(y)}', 'bytes': [0, 0xB6, ord(x), ord(y)]})
            out.append({'line': f'ldi {lit(x)}{sep}nop{sep};{y}', 'bytes': [0xA5, ord(x), 0]})
    return [j for j in out if not ambiguous(j['line'], False)]


def strings(tier):
    """Quoted strings of 1..3 (quick) or 1..4 (thorough) elements (a letter, semicolon, comma, blank, the other quote, an escaped backslash, an escaped
    quote, a newline escape) in both quote styles under .cstr / .asciiz / .byte, alone and followed by every comment of
    length <= L: the bytes are the characters (and the terminator 0).  Left out: single-quoted texts of one element (a
    character literal) and single-quoted texts that begin with an escaped quote (two readings, see ambiguous())."""
    nmax, L = STRING_BOUNDS[tier if tier in STRING_BOUNDS else 'quick']
    coms = [''.join(t) for n in range(L + 1) for t in itertools.product(COMMENT_ALPHABET, repeat=n)]
    out = []
    for q in ('"', "'"):
        other = '"' if q == "'" else "'"
        el = [('a', 97), (';', 59), (other, ord(other)), ('\\\\', 92), ('\\' + q, ord(q)), (' ', 32), (',', 44), ('\\n', 10)]
        for n in range(1, nmax + 1):
            for combo in itertools.product(el, repeat=n):
                text = ''.join(c[0] for c in combo)
                bs = [c[1] for c in combo]
                if q == "'" and (text.startswith("\\'") or n == 1):
                    continue
                for d, term in (('.cstr', [0]), ('.asciiz', [0]), ('.byte', [])):
                    stmt = f'{d} {q}{text}{q}'
                    out.append({'line': stmt, 'bytes': bs + term})
                    for gap in ('', ' '):
                        for c in coms:
                            out.append({'line': stmt + gap + ';' + c, 'bytes': bs + term})
    return out


def assemble(lines):
    src = '\n'.join(lines) + '\n'
    r = runner.run_forked(['compile', '-c', 'isa.json', '-o', 'out.bin', 'p.asm'], {'isa.json': ISA_TEXT, 'p.asm': src},
                          crosscheck=False)
    return (r.outputs.get('out.bin', b'') if r.klass == 'accepted' else None), r


def _batch(jobs):
    want = bytes(b for j in jobs for b in j['bytes'])
    got, _ = assemble([j['line'] for j in jobs])
    if got == want:
        return 1, []
    bad = []
    for j in jobs:
        got, r = assemble([j['line']])
        if got != bytes(j['bytes']):
            bad.append((j, {'line': j['line'], 'expected': bytes(j['bytes']).hex(),
                            'got': got.hex() if got is not None else r.klass, 'run': r.brief()}))
    return 1 + len(jobs), bad


def _init():
    runner._import_target()


def survey(jobs, procs=16):
    """-> (runs, [(job, detail)])"""
    batches = [jobs[i:i + BATCH] for i in range(0, len(jobs), BATCH)]
    runs, bad = 0, []
    ctx = multiprocessing.get_context('fork')
    with ctx.Pool(procs, initializer=_init) as pool:
        for n, b in pool.imap_unordered(_batch, batches, chunksize=4):
            runs += n
            bad += b
    bad.sort(key=lambda x: (len(x[0]['line']), x[0]['line']))
    return runs, bad

"""Runs the real bespokeasm command line on generated inputs.

Two ways, same observable result:
  * run_forked(): os.fork() of the current interpreter (bespokeasm imported but never *used* in the
    parent, so every child starts from pristine module state), about 10-15 ms per case;
  * run_subprocess(): a genuine `/venv/bin/python -m bespokeasm ...`, about 200 ms per case.

Only what a user observes is returned: exit status, files written, stdout/stderr.
"""
from __future__ import annotations

import os
import resource
import shutil
import signal
import subprocess
import sys
import tempfile
import time

REPO_SRC = os.environ.get('VERIF_REPO_SRC', '/repo/src')
PYTHON = '/venv/bin/python'
MAX_OUT = 4 * 1024 * 1024   # never read more than this from a single produced file


class HarnessError(Exception):
    """Something is wrong with the machinery (never a verdict about the code under test)."""


def _import_target():
    if REPO_SRC not in sys.path:
        sys.path.insert(0, REPO_SRC)
    import bespokeasm  # noqa
    import bespokeasm.__main__ as m
    here = os.path.realpath(os.path.dirname(bespokeasm.__file__))
    if not here.startswith(os.path.realpath(REPO_SRC)):
        raise HarnessError(f'bespokeasm imported from {here}, expected under {REPO_SRC}')
    return m


class Result:
    __slots__ = ('exit_code', 'timed_out', 'signal', 'outputs', 'stdout', 'stderr', 'wall_s', 'root')

    def __init__(self, exit_code, timed_out, sig, outputs, stdout, stderr, wall_s):
        self.exit_code = exit_code
        self.timed_out = timed_out
        self.signal = sig
        self.outputs = outputs
        self.stdout = stdout
        self.stderr = stderr
        self.wall_s = wall_s
        self.root = None

    @property
    def ok(self) -> bool:
        return (not self.timed_out) and self.exit_code == 0

    @property
    def klass(self) -> str:
        if self.timed_out:
            return 'timeout'
        return 'accepted' if self.exit_code == 0 else 'rejected'

    def brief(self) -> dict:
        return {
            'class': self.klass, 'exit_code': self.exit_code,
            'stderr_tail': self.stderr[-400:], 'stdout_tail': self.stdout[-200:],
            'outputs': {k: (v.hex() if len(v) <= 256 else f'<{len(v)} bytes> {v[:64].hex()}...')
                        for k, v in sorted(self.outputs.items())},
        }


def scratch_root() -> str:
    base = os.environ.get('VERIF_SCRATCH')
    if base:
        os.makedirs(base, exist_ok=True)
        return base
    if os.path.isdir('/dev/shm') and os.access('/dev/shm', os.W_OK):
        return '/dev/shm'
    return tempfile.gettempdir()


def _write_files(root: str, files: dict):
    for rel, content in files.items():
        p = os.path.join(root, rel)
        os.makedirs(os.path.dirname(p), exist_ok=True)
        if isinstance(content, (tuple, list)) and content and content[0] == 'symlink':
            # ('symlink', path relative to the scratch root): written after the plain files exist or not, it does not matter
            os.symlink(os.path.relpath(os.path.join(root, content[1]), os.path.dirname(p)), p)
            continue
        mode = 'wb' if isinstance(content, (bytes, bytearray)) else 'w'
        with open(p, mode) as f:
            f.write(content)


def _snapshot(root: str) -> dict:
    snap = {}
    for d, _, fs in os.walk(root):
        for fn in fs:
            p = os.path.join(d, fn)
            try:
                st = os.stat(p)
            except FileNotFoundError:
                continue
            snap[os.path.relpath(p, root)] = (st.st_size, st.st_mtime_ns, st.st_ino)
    return snap


def _collect(root: str, before: dict, skip=('__stdout', '__stderr')) -> dict:
    out = {}
    for rel, meta in _snapshot(root).items():
        if rel in skip:
            continue
        if before.get(rel) == meta:
            continue
        with open(os.path.join(root, rel), 'rb') as f:
            out[rel] = f.read(MAX_OUT)
    return out


def _child(main_mod, root, cwd, argv, timeout_s, env, trace_hook):
    try:
        argv = [a.replace('{ROOT}', root) for a in argv]      # absolute spellings of paths inside the scratch directory
        os.chdir(os.path.join(root, cwd))
        so = os.open(os.path.join(root, '__stdout'), os.O_WRONLY | os.O_CREAT | os.O_TRUNC)
        se = os.open(os.path.join(root, '__stderr'), os.O_WRONLY | os.O_CREAT | os.O_TRUNC)
        dn = os.open(os.devnull, os.O_RDONLY)
        os.dup2(dn, 0)
        os.dup2(so, 1)
        os.dup2(se, 2)
        sys.stdout = os.fdopen(1, 'w', closefd=False)
        sys.stderr = os.fdopen(2, 'w', closefd=False)
        if env:
            os.environ.update(env)
        resource.setrlimit(resource.RLIMIT_AS, (3 << 30, 3 << 30))
        resource.setrlimit(resource.RLIMIT_FSIZE, (64 << 20, 64 << 20))
        resource.setrlimit(resource.RLIMIT_CORE, (0, 0))
        signal.signal(signal.SIGALRM, signal.SIG_DFL)
        signal.alarm(int(timeout_s))
        sys.argv = ['bespokeasm'] + list(argv)
        code = 0
        try:
            if trace_hook is not None:
                trace_hook()
            main_mod.main(args=list(argv), prog_name='bespokeasm', standalone_mode=False)
        except SystemExit as e:
            c = e.code
            if c is None:
                code = 0
            elif isinstance(c, int):
                code = c & 0xFF
            else:
                sys.stderr.write(str(c) + '\n')
                code = 1
        except BaseException as e:  # what the interpreter would do: traceback, exit 1 (click usage: 2)
            import click
            if isinstance(e, click.exceptions.UsageError):
                sys.stderr.write(f'UsageError: {e}\n')
                code = 2
            elif isinstance(e, click.exceptions.Abort):
                code = 1
            else:
                import traceback
                traceback.print_exc()
                code = 1
        try:
            sys.stdout.flush()
            sys.stderr.flush()
        except Exception:
            pass
        os._exit(code)
    except BaseException:
        os._exit(97)


CROSSCHECK_EVERY = int(os.environ.get('VERIF_CROSSCHECK_EVERY', '150'))
CROSSCHECKS = 0
_calls = 0


def run_forked(argv, files, cwd='.', timeout_s=10, env=None, trace_hook=None, keep=False, crosscheck=True) -> Result:
    """files: {relative path: str|bytes} written into a fresh scratch directory before the run.
    Every CROSSCHECK_EVERY-th call is repeated in a genuine interpreter process and must be observably identical
    (faithfulness of the fork shortcut); a disagreement is a harness error, never a verdict."""
    global _calls, CROSSCHECKS
    res = _run_forked(argv, files, cwd, timeout_s, env, trace_hook, keep)
    _calls += 1
    if crosscheck and CROSSCHECK_EVERY and trace_hook is None and _calls % CROSSCHECK_EVERY == 0 and not res.timed_out:
        ref = run_subprocess(argv, files, cwd=cwd, timeout_s=max(30, timeout_s * 3), env=env)
        CROSSCHECKS += 1
        if not same_observable(res, ref):
            where = ''
            na, nb = _normalised(res), _normalised(ref)
            for k in sorted(set(na) | set(nb)):
                if na.get(k) != nb.get(k):
                    x, y = na.get(k, b''), nb.get(k, b'')
                    i = next((j for j in range(min(len(x), len(y))) if x[j] != y[j]), min(len(x), len(y)))
                    where = f'first difference in {k} at byte {i}: fork={x[max(0, i - 40):i + 60]!r} subprocess={y[max(0, i - 40):i + 60]!r}'
                    break
            raise HarnessError(f'fork runner and genuine subprocess disagree ({res.klass}/{ref.klass}, exit '
                               f'{res.exit_code}/{ref.exit_code}) for argv={argv}: {where}')
    return res


def _run_forked(argv, files, cwd='.', timeout_s=10, env=None, trace_hook=None, keep=False) -> Result:
    main_mod = _import_target()
    root = tempfile.mkdtemp(prefix='bvf-', dir=scratch_root())
    try:
        _write_files(root, files)
        os.makedirs(os.path.join(root, cwd), exist_ok=True)
        before = _snapshot(root)
        t0 = time.monotonic()
        sys.stdout.flush()
        sys.stderr.flush()
        pid = os.fork()
        if pid == 0:
            _child(main_mod, root, cwd, argv, timeout_s, env, trace_hook)
        _, status = os.waitpid(pid, 0)
        wall = time.monotonic() - t0
        timed_out = False
        sig = None
        code = None
        if os.WIFSIGNALED(status):
            sig = os.WTERMSIG(status)
            timed_out = sig in (signal.SIGALRM, signal.SIGXCPU)
            code = 128 + sig
        else:
            code = os.WEXITSTATUS(status)
        if code == 97:
            raise HarnessError('forked child failed before/after calling bespokeasm')
        outputs = _collect(root, before)

        def rd(n):
            try:
                with open(os.path.join(root, n), 'r', errors='replace') as f:
                    return f.read(MAX_OUT)
            except FileNotFoundError:
                return ''
        r = Result(code, timed_out, sig, outputs, rd('__stdout'), rd('__stderr'), wall)
        r.root = root
        return r
    finally:
        if not keep:
            shutil.rmtree(root, ignore_errors=True)


def run_subprocess(argv, files, cwd='.', timeout_s=20, env=None, hashseed='0', python=PYTHON) -> Result:
    root = tempfile.mkdtemp(prefix='bvf-', dir=scratch_root())
    try:
        _write_files(root, files)
        os.makedirs(os.path.join(root, cwd), exist_ok=True)
        before = _snapshot(root)
        e = {k: v for k, v in os.environ.items() if not k.startswith('BESPOKEASM')}
        e['PYTHONPATH'] = REPO_SRC
        e['PYTHONHASHSEED'] = str(hashseed)
        e['PYTHONDONTWRITEBYTECODE'] = '1'
        if env:
            e.update(env)
        t0 = time.monotonic()
        timed_out = False
        try:
            p = subprocess.run([python, '-m', 'bespokeasm'] + [a.replace('{ROOT}', root) for a in argv], cwd=os.path.join(root, cwd),
                               env=e, stdin=subprocess.DEVNULL, capture_output=True, timeout=timeout_s)
            code, so, se = p.returncode, p.stdout, p.stderr
        except subprocess.TimeoutExpired as te:
            timed_out, code, so, se = True, None, te.stdout or b'', te.stderr or b''
        wall = time.monotonic() - t0
        outputs = _collect(root, before)
        sig = -code if (code is not None and code < 0) else None
        r = Result(code, timed_out, sig, outputs, so.decode(errors='replace'), se.decode(errors='replace'), wall)
        r.root = root
        return r
    finally:
        shutil.rmtree(root, ignore_errors=True)


def _normalised(r: Result) -> dict:
    """Outputs with the (random) scratch directory name replaced: listings print absolute paths of included files."""
    if not r.root:
        return r.outputs
    needle = r.root.encode()
    real = os.path.realpath(r.root).encode()
    return {k: v.replace(needle, b'<ROOT>').replace(real, b'<ROOT>') for k, v in r.outputs.items()}


def same_observable(a: Result, b: Result) -> bool:
    """Faithfulness cross-check between the forked and the genuine subprocess run."""
    if a.klass != b.klass:
        return False
    if a.klass == 'accepted' and _normalised(a) != _normalised(b):
        return False
    if a.klass == 'rejected' and set(a.outputs) != set(b.outputs):
        return False
    return True


class InProcessTimeout(BaseException):
    """Raised inside code under test that is called in-process and exceeded its time limit."""


class time_limit:
    """with time_limit(3): ...   (SIGALRM based; for the few API-level calls made inside a worker process)"""

    def __init__(self, seconds):
        self.seconds = seconds

    def _fire(self, signum, frame):
        raise InProcessTimeout()

    def __enter__(self):
        self.old = signal.signal(signal.SIGALRM, self._fire)
        signal.setitimer(signal.ITIMER_REAL, self.seconds)

    def __exit__(self, *exc):
        signal.setitimer(signal.ITIMER_REAL, 0)
        signal.signal(signal.SIGALRM, self.old)
        return False


"""Hypothesis strategies for ISA definitions (as plain dicts in the documented configuration format),
for structured operands / statements under them, and the renderer to assembly text.

Name pools are pairwise disjoint *by construction* and contain nothing that lexes as a number
(b[01]+, [0-9a-f]+H), a function (BYTEn, LSB) or an assembler keyword.
"""
from __future__ import annotations

import copy

from hypothesis import strategies as st

from . import exprs

# a register name is literal text and may contain a dot; 'IX.h' continues 'ix' in another letter case; 'ZERO' is spelled like a
# keyword but in another case
REGISTERS = ['a', 'x', 'y', 'hl', 'sp', 'ix', 'mar', 'r1', 'ab', 'a1', 'IX.h', 'r1.w', 'ZERO', '_t']
MNEMONICS = ['ld', 'ldx', 'ld.b', 'mov', 'movw', 'st', 'jmp', 'jr', 'tst', 'inc', 'sel', 'br', 'add', 'addc',
             'push', 'op.w']
MACROS = ['mpush', 'swap', 'ldm', 'clr2']
# a key may extend another key, and keys are case sensitive
ENUM_KEYS = ['zf', 'cf', 'nz', 'eq', 'ne', 'lo', 'hi', 'k1', 'eq.l', 'k1.w', 'Hi', 'NZ', '1', '7']      # and may be numerals
LABELS = ['start', 'loop', 'done', 'tbl', 'msg', 'lbl1', 'lbl2', 'vec', 'isr', 'amov', 'mov1', 'xa', 'hl2',
          'spx', 'r1x', 'jmp2']
CONSTS = ['K_ONE', 'kval', 'size1', 'OFFS', 'k_two', 'KVAL', 'offs']       # case twins are distinct names
ZONES = ['ROM', 'RAM', 'ZP', 'VARS', 'hi_mem']
DECORATORS = ['plus', 'plus_plus', 'minus', 'minus_minus', 'exclamation', 'at']
DECO_TEXT = {'plus': '+', 'plus_plus': '++', 'minus': '-', 'minus_minus': '--', 'exclamation': '!', 'at': '@'}

BIT_SIZES = [1, 2, 3, 4, 5, 7, 8, 9, 12, 15, 16, 17, 24, 31, 32, 33, 63, 64]


def bits(lo=1, hi=64):
    pool = [b for b in BIT_SIZES if lo <= b <= hi]
    return st.one_of(st.sampled_from(pool), st.sampled_from(pool), st.integers(lo, hi))


def unsigned_value(nbits):
    top = (1 << nbits) - 1
    edge = sorted(v for v in {0, 1, top, top >> 1, (top >> 1) + 1} if 0 <= v <= top)
    return st.one_of(st.sampled_from(edge), st.integers(0, top))


endians = st.sampled_from(['big', 'little'])
opt_endian = st.one_of(st.none(), endians)


# ------------------------------------------------------------------------------------------------
# operand alternatives

@st.composite
def _bytecode(draw, force=False, max_size=12):
    if not force and draw(st.integers(0, 3)) == 0:
        return None
    n = draw(bits(1, max_size))
    bc = {'value': draw(unsigned_value(n)), 'size': n}
    p = draw(st.sampled_from(['suffix', 'suffix', 'prefix', None]))
    if p is not None:
        bc['position'] = p
    return bc


@st.composite
def _argument(draw, lo=1, hi=64):
    a = {'size': draw(bits(lo, hi)), 'byte_align': draw(st.booleans())}
    e = draw(opt_endian)
    if e is not None:
        a['endian'] = e
    return a


@st.composite
def _decorator(draw):
    if draw(st.integers(0, 3)) != 0:
        return None
    return {'type': draw(st.sampled_from(DECORATORS)), 'is_prefix': draw(st.booleans())}


@st.composite
def alternative(draw, kind, regs, env):
    """env: {'address_size', 'zones': {name:(s,e)}, 'keys': available enum keys}"""
    alt = {'type': kind}
    if kind in ('numeric', 'indirect_numeric', 'deferred_numeric'):
        bc = draw(_bytecode())
        if bc:
            alt['bytecode'] = bc
        alt['argument'] = draw(_argument())
        if draw(st.integers(0, 5)) == 0:
            alt['argument']['valid_address'] = True
    elif kind == 'address':
        bc = draw(_bytecode())
        if bc:
            alt['bytecode'] = bc
        a = draw(_argument(lo=1, hi=64))
        if env.get('zone_names') and draw(st.booleans()):
            a['memory_zone'] = draw(st.sampled_from(env['zone_names']))
        if draw(st.integers(0, 2)) == 0:
            a['size'] = draw(st.integers(1, max(1, min(16, env['address_size'] - 1))))
            a['slice_lsb'] = True
            a['match_address_msb'] = True
        alt['argument'] = a
    elif kind == 'relative_address':
        bc = draw(_bytecode())
        if bc:
            alt['bytecode'] = bc
        a = draw(_argument(lo=2, hi=40))
        n = a['size']
        lo_w, hi_w = -(1 << (n - 1)), (1 << (n - 1)) - 1
        if draw(st.booleans()):
            a['min'] = draw(st.integers(max(lo_w, -300), 0))
        if draw(st.booleans()):
            a['max'] = draw(st.integers(0, min(hi_w, 300)))
        alt['argument'] = a
        if draw(st.booleans()):
            alt['use_curly_braces'] = True
        if draw(st.booleans()):
            alt['offset_from_instruction_end'] = True
    elif kind == 'numeric_bytecode':
        n = draw(bits(1, 16))
        top = (1 << n) - 1
        bottom = -(1 << (n - 1)) if draw(st.integers(0, 3)) == 0 else 0
        lo = draw(st.integers(bottom, top))
        hi = draw(st.integers(lo, top))
        if draw(st.integers(0, 5)) == 0:
            # a configured range may be wider than the field: the width still binds
            hi = top + draw(st.integers(1, 9))
            if bottom < 0:
                lo = bottom - draw(st.integers(0, 3))
        alt['bytecode'] = {'size': n, 'min': lo, 'max': hi}
        p = draw(st.sampled_from(['suffix', 'prefix', None]))
        if p:
            alt['bytecode']['position'] = p
    elif kind == 'numeric_enumeration':
        keys = draw(st.lists(st.integers(0, 40), min_size=1, max_size=5, unique=True))
        which = draw(st.sampled_from(['code', 'arg', 'both']))
        if which in ('code', 'both'):
            n = draw(bits(1, 12))
            alt['bytecode'] = {'size': n, 'value_dict': {k: draw(unsigned_value(n)) for k in keys}}
            p = draw(st.sampled_from(['suffix', 'prefix', None]))
            if p:
                alt['bytecode']['position'] = p
        if which in ('arg', 'both'):
            a = draw(_argument(1, 32))
            a['value_dict'] = {k: draw(unsigned_value(a['size'])) for k in keys}
            alt['argument'] = a
    elif kind == 'enumeration':
        keys = draw(st.lists(st.sampled_from(env['keys']), min_size=1, max_size=3, unique=True))
        a = draw(_argument(1, 32))
        a['value_dict'] = {k: draw(unsigned_value(a['size'])) for k in keys}
        alt['argument'] = a
        if draw(st.booleans()):
            n = draw(bits(1, 12))
            alt['bytecode'] = {'size': n, 'value_dict': {k: draw(unsigned_value(n)) for k in keys}}
            p = draw(st.sampled_from(['suffix', 'prefix', None]))
            if p:
                alt['bytecode']['position'] = p
    elif kind == 'register':
        alt['register'] = draw(st.sampled_from(regs))
        bc = draw(_bytecode())
        if bc:
            alt['bytecode'] = bc
        d = draw(_decorator())
        seen = env.get('deco_seen')
        if seen is not None:
            if seen and draw(st.booleans()):
                # the same register with the same decoration on the other side, elsewhere in the ISA
                r, t, pre = draw(st.sampled_from(seen))
                if r in regs:
                    alt['register'] = r
                    d = {'type': t, 'is_prefix': not pre}
            if d:
                seen.append((alt['register'], d['type'], bool(d.get('is_prefix'))))
        if d:
            alt['decorator'] = d
    elif kind == 'indirect_register':
        alt['register'] = draw(st.sampled_from(regs))
        bc = draw(_bytecode())
        if bc:
            alt['bytecode'] = bc
        if draw(st.booleans()):
            o = draw(_argument(1, 40))
            alt['offset'] = o
        d = draw(_decorator())
        if d:
            alt['decorator'] = d
    elif kind in ('indexed_register', 'indirect_indexed_register'):
        alt['register'] = draw(st.sampled_from(regs))
        alt['bytecode'] = draw(_bytecode(force=True, max_size=8))
        isz = draw(bits(1, 6))
        iregs = draw(st.lists(st.sampled_from(regs), min_size=1, max_size=3, unique=True))
        idx = {}
        for r in iregs:
            idx[f'idx_{r}'] = {'type': 'register', 'register': r,
                               'bytecode': {'value': draw(unsigned_value(isz)), 'size': isz}}
        extras = draw(st.sampled_from([[], [], [], ['num'], ['num'], ['nbc'], ['nbc'], ['nenum'], ['enum'],
                                       ['enum', 'num'], ['num', 'enum'], ['enum', 'nbc']]))
        for extra in extras:
            _index_extra(draw, extra, idx, isz, kind, env)
        # the order in which index alternatives are listed carries no meaning
        alt['index_operands'] = {k: idx[k] for k in draw(st.permutations(sorted(idx)))}
        if kind == 'indirect_indexed_register':
            d = draw(_decorator())
            if d:
                alt['decorator'] = d
    elif kind == 'empty':
        alt['bytecode'] = draw(_bytecode(force=True))
    return alt


def _index_extra(draw, extra, idx, isz, kind, env):
    if extra == 'num' and kind == 'indexed_register':
        idx['idx_num'] = {'type': 'numeric', 'bytecode': {'value': draw(unsigned_value(isz)), 'size': isz},
                          'argument': draw(_argument(1, 24))}
    elif extra == 'nbc':
        # the index code is the value of a run-time expression
        bottom = -(1 << (isz - 1)) if draw(st.booleans()) else 0
        lo = draw(st.integers(bottom, (1 << isz) - 1))
        if bottom < 0 and draw(st.booleans()):
            lo = draw(st.integers(bottom, -1))      # a range that really reaches below zero
        hi = draw(st.integers(lo, (1 << isz) - 1))
        if draw(st.integers(0, 3)) == 0:
            hi = (1 << isz) - 1 + draw(st.integers(1, 9))
        idx['idx_nbc'] = {'type': 'numeric_bytecode', 'bytecode': {'size': isz, 'min': lo, 'max': hi}}
    elif extra == 'nenum':
        keys = draw(st.lists(st.integers(0, 40), min_size=1, max_size=4, unique=True))
        idx['idx_nen'] = {'type': 'numeric_enumeration',
                          'bytecode': {'size': isz, 'value_dict': {k: draw(unsigned_value(isz)) for k in keys}}}
    elif extra == 'enum' and env.get('keys'):
        keys = draw(st.lists(st.sampled_from(env['keys']), min_size=1, max_size=3, unique=True))
        a = draw(_argument(1, 16))
        a['value_dict'] = {k: draw(unsigned_value(a['size'])) for k in keys}
        idx['idx_enum'] = {'type': 'enumeration', 'argument': a,
                           'bytecode': {'size': isz, 'value_dict': {k: draw(unsigned_value(isz)) for k in keys}}}


ALL_KINDS = ['numeric', 'register', 'indexed_register', 'indirect_register', 'indirect_indexed_register',
             'indirect_numeric', 'deferred_numeric', 'enumeration', 'numeric_enumeration', 'numeric_bytecode',
             'address', 'relative_address']
PLAIN_KINDS = ['numeric', 'address', 'relative_address', 'numeric_bytecode', 'numeric_enumeration']


def _shape_key(alt):
    """Two alternatives with the same shape key would accept the same operand text."""
    k = alt['type']
    d = alt.get('decorator')
    dk = (d['type'], bool(d.get('is_prefix'))) if d else None
    if k in PLAIN_KINDS:
        if k == 'relative_address' and alt.get('use_curly_braces'):
            return ('braced',)
        return ('plain',)
    if k == 'register':
        return ('reg', alt['register'], dk)
    if k == 'indirect_register':
        return ('indreg', alt['register'], dk)
    if k == 'indexed_register':
        return ('idxreg', alt['register'])
    if k == 'indirect_indexed_register':
        return ('indidx', alt['register'], dk)
    return (k,)


@st.composite
def operand_set(draw, regs, env, kinds=ALL_KINDS, max_alts=4):
    n = draw(st.integers(1, max_alts))
    alts = {}
    seen = set()
    used_keys = set()
    for i in range(n):
        kind = draw(st.sampled_from([k for k in kinds if (k not in ('register', 'indexed_register',
                    'indirect_register', 'indirect_indexed_register') or regs)]))
        e2 = dict(env)
        e2['keys'] = [k for k in env['keys'] if k not in used_keys]
        if kind == 'enumeration' and not e2['keys']:
            continue
        alt = draw(alternative(kind, regs, e2))
        sk = _shape_key(alt)
        if sk in seen:
            continue
        # decorated and undecorated forms of one register, or an offset-capable indirect register next to an
        # indirect indexed form of the same register, read ambiguously: keep one
        if sk[0] in ('reg', 'indreg', 'indidx') and any(s[0] == sk[0] and s[1] == sk[1] for s in seen):
            continue
        if sk[0] == 'indidx' and any(s[0] == 'indreg' and s[1] == sk[1] for s in seen):
            continue
        if sk[0] == 'indreg' and any(s[0] == 'indidx' and s[1] == sk[1] for s in seen):
            continue
        if sk[0] == 'idxreg' and any(s[0] == 'reg' and s[1] == sk[1] and s[2] is not None for s in seen):
            continue
        if sk[0] == 'reg' and sk[2] is not None and any(s[0] == 'idxreg' and s[1] == sk[1] for s in seen):
            continue
        # enumeration next to numeric_enumeration: the properties do not say which reads an identifier first
        if kind == 'enumeration' and any(a['type'] == 'numeric_enumeration' for a in alts.values()):
            continue
        if kind == 'numeric_enumeration' and any(a['type'] == 'enumeration' for a in alts.values()):
            continue
        seen.add(sk)
        if kind == 'enumeration':
            used_keys |= set(alt['argument']['value_dict'])
        alts[f'{kind[:6]}_{i}'] = alt
    if not alts:
        alts['numeric_0'] = draw(alternative('numeric', regs, env))
    return {'operand_values': alts}


@st.composite
def opcode(draw, max_size=64):
    n = draw(bits(1, max_size))
    bc = {'value': draw(unsigned_value(n)), 'size': n}
    if draw(st.integers(0, 2)) == 0:
        sn = draw(bits(1, 16))
        bc['suffix'] = {'value': draw(unsigned_value(sn)), 'size': sn}
    e = draw(opt_endian)
    if e is not None:
        bc['endian'] = e
    return bc


@st.composite
def variant(draw, set_names, sets, regs, env, allow_specific=True, max_ops=3, spec_bias=False):
    v = {'bytecode': draw(opcode())}
    nops = draw(st.integers(0, max_ops))
    if nops == 0:
        if draw(st.booleans()):
            v['operands'] = {'count': 0}
        return v
    oc = {'count': nops}
    use_spec = allow_specific and draw(st.integers(0, 1 if spec_bias else 3)) == 0
    use_sets = (not use_spec) or draw(st.booleans())
    if use_spec:
        specs = {}
        for si in range(draw(st.sampled_from([1, 2, 2] if spec_bias else [1, 1, 2]))):
            lst = {}
            for i in range(nops):
                # 'empty' is only documented as the trailing / sole member of a specific list
                kind = draw(st.sampled_from(ALL_KINDS + (['empty', 'empty', 'empty'] if i == nops - 1 else [])))
                if kind in ('register', 'indexed_register', 'indirect_register', 'indirect_indexed_register') and not regs:
                    kind = 'numeric'
                if kind == 'enumeration' and not env['keys']:
                    kind = 'numeric'
                lst[f'sp{i}_{kind[:5]}'] = draw(alternative(kind, regs, env))
            spec = {'list': lst}
            if draw(st.integers(0, 3)) == 0:
                spec['reverse_argument_order'] = True
            if draw(st.integers(0, 3)) == 0:
                spec['reverse_bytecode_order'] = True
            specs['spec_' + 'ab'[si]] = spec
        oc['specific_operands'] = specs
    if use_sets:
        oc['operand_sets'] = {'list': [draw(st.sampled_from(set_names)) for _ in range(nops)]}
        if draw(st.integers(0, 2)) == 0:
            oc['operand_sets']['reverse_argument_order'] = True
        if draw(st.integers(0, 2)) == 0:
            oc['operand_sets']['reverse_bytecode_order'] = True
        if nops >= 2 and draw(st.integers(0, 5)) == 0:
            if draw(st.booleans()):
                # the same set in both positions: a disallowed combination [p, q] leaves [q, p] allowed
                oc['operand_sets']['list'][1] = oc['operand_sets']['list'][0]
            pair = [draw(st.sampled_from(sorted(sets[s]['operand_values']))) for s in oc['operand_sets']['list']]
            oc['operand_sets']['disallowed_pairs'] = [pair]
            if allow_specific and len(set(pair)) == len(pair) and draw(st.booleans()):
                # the usual reason to disallow a generic combination: it is listed explicitly with an encoding of its own
                # (under the very same operand ids)
                oc.setdefault('specific_operands', {})['spec_d'] = {
                    'list': {aid: copy.deepcopy(sets[sn]['operand_values'][aid]) for aid, sn in zip(pair, oc['operand_sets']['list'])}}
    v['operands'] = oc
    return v


@st.composite
def full_isa(draw, max_mnemonics=3, max_variants=3, kinds=ALL_KINDS, address_sizes=(8, 12, 16, 20, 24, 32),
             with_zones=True, spec_bias=False):
    asz = draw(st.sampled_from(address_sizes))
    general = {'address_size': asz, 'endian': draw(endians)}
    regs = draw(st.lists(st.sampled_from(REGISTERS), min_size=0, max_size=5, unique=True))
    if regs or draw(st.booleans()):
        general['registers'] = regs
    if draw(st.integers(0, 3)) == 0:
        general['min_version'] = draw(st.sampled_from(['0.3.0', '0.4.0', '0.4.2']))
    if draw(st.integers(0, 3)) == 0:
        general['identifier'] = {'name': draw(st.sampled_from(['tiny-cpu', 'bvf_isa', 'my cpu'])),
                                 'version': draw(st.sampled_from(['1.0.0', '0.2.10', '3.1.4']))}
    cfg = {'description': 'generated ISA', 'general': general}
    zones = {}
    top = (1 << asz) - 1
    if with_zones and draw(st.integers(0, 2)) == 0:
        for zn in draw(st.lists(st.sampled_from(ZONES), min_size=1, max_size=2, unique=True)):
            s = draw(st.integers(0, top))
            e = draw(st.integers(s, top))
            zones[zn] = (s, e)
        cfg['predefined'] = {'memory_zones': [{'name': k, 'start': v[0], 'end': v[1]} for k, v in zones.items()]}
    env = {'address_size': asz, 'zone_names': sorted(zones), 'zones': zones, 'keys': list(ENUM_KEYS), 'deco_seen': []}
    nsets = draw(st.integers(1, 3))
    sets = {}
    for i in range(nsets):
        sets[f'set_{i}'] = draw(operand_set(regs, env, kinds=kinds))
    if regs and 'register' in kinds and draw(st.integers(0, 4)) == 0:
        # one register carrying the same decoration before it in one operand set and after it in another
        cands = [a for s_ in sets.values() for a in s_['operand_values'].values()
                 if a['type'] == 'register' and a.get('decorator')]
        if cands:
            a = copy.deepcopy(draw(st.sampled_from(cands)))
        else:
            a = draw(alternative('register', regs, env))
            a['decorator'] = {'type': draw(st.sampled_from(DECORATORS)), 'is_prefix': draw(st.booleans())}
            sets[f'set_{len(sets)}'] = {'operand_values': {'regist_p': a}}
            a = copy.deepcopy(a)
        a['decorator']['is_prefix'] = not a['decorator'].get('is_prefix', False)
        if 'bytecode' in a:
            a['bytecode']['value'] = draw(unsigned_value(a['bytecode']['size']))
        sets[f'set_{len(sets)}'] = {'operand_values': {'regist_q': a}}
    cfg['operand_sets'] = sets
    mns = draw(st.lists(st.sampled_from(MNEMONICS), min_size=1, max_size=max_mnemonics, unique=True))
    instrs = {}
    for mn in mns:
        nv = draw(st.integers(1, max_variants))
        vs = [draw(variant(sorted(sets), sets, regs, env, spec_bias=spec_bias)) for _ in range(nv)]
        if draw(st.booleans()):
            ic = dict(vs[0])
            if len(vs) > 1:
                ic['variants'] = vs[1:]
        else:
            ic = {'variants': vs}
        instrs[mn] = ic
    cfg['instructions'] = instrs
    return cfg


# ------------------------------------------------------------------------------------------------
# operands for a given alternative

def _lit(v, draw, notations=('dec', 'hex$', 'hex0x', 'hexH', 'bin%', 'binb')):
    """AST of integer v (possibly negative) as a literal in a drawn notation."""
    n = draw(st.sampled_from(notations))
    node = ['num', abs(v), n]
    return ['neg', node] if v < 0 else node


class ForcedConsts(dict):
    """A constants table whose use is compulsory: every value is written relative to a constant (or as a character)."""
    force = True


def twin_operand(op, twin_names):
    """The operand with every constant replaced by its case-twin and every letter literal case-swapped: the same text
    up to letter case, a different value."""
    def walk(x):
        if isinstance(x, dict):
            return {k: walk(v) for k, v in x.items()}
        if isinstance(x, list):
            if len(x) == 2 and x[0] == 'lab' and x[1] in twin_names:
                return ['lab', twin_names[x[1]]]
            if len(x) == 3 and x[0] == 'num' and x[2] == 'chr' and chr(x[1]).isalpha():
                return ['num', ord(chr(x[1]).swapcase()), 'chr']
            return [walk(v) for v in x]
        return x
    return walk(op)


def value_ast(draw, v, consts=None, simple=False, allow_chr=True):
    """An expression AST whose value is v.  `simple`: only characters allowed inside brackets."""
    nots = ('dec', 'hex$', 'hexH', 'bin%') if simple else ('dec', 'hex$', 'hex0x', 'hexH', 'bin%', 'binb')
    choice = draw(st.integers(0, 9))
    force = bool(getattr(consts, 'force', False))
    if force and choice >= 7 and allow_chr and not simple and 32 < v < 127 and chr(v) in exprs.SAFE_CHARS:
        return ['num', v, 'chr']
    if consts and (choice < 2 or force):
        name = draw(st.sampled_from(sorted(consts)))
        d = v - consts[name]
        if d == 0:
            return ['lab', name]
        return ['bin', '+' if d > 0 else '-', ['lab', name], _lit(abs(d), draw, nots)]
    if choice < 4:
        a = draw(st.integers(0, 300))
        if v - a >= 0:
            return ['bin', '+', _lit(v - a, draw, nots), _lit(a, draw, nots)]
        return ['bin', '-', _lit(a, draw, nots), _lit(a - v, draw, nots)]
    if choice == 4 and not simple and v >= 0:
        sh = draw(st.integers(0, 4))
        lowbits = v & ((1 << sh) - 1)
        return ['bin', '|', ['bin', '<<', _lit(v >> sh, draw), ['num', sh, 'dec']], _lit(lowbits, draw)]
    if choice == 5 and allow_chr and not simple and 32 < v < 127 and chr(v) in exprs.SAFE_CHARS:
        return ['num', v, 'chr']
    if v < 0 and simple:
        return ['bin', '-', ['num', 0, 'dec'], _lit(-v, draw, nots)]
    return _lit(v, draw, nots)


def field_value(draw, nbits, lo=None, hi=None):
    """A value that fits nbits (signed-or-unsigned range), optionally clipped, biased to extremes."""
    a = -(1 << (nbits - 1)) if lo is None else lo
    b = (1 << nbits) - 1 if hi is None else hi
    if a > b:
        a = b
    edge = sorted({a, b, min(b, max(a, 0)), min(b, max(a, 1)), min(b, max(a, -1)), min(b, max(a, (1 << (nbits - 1)) - 1)),
                   min(b, max(a, 1 << (nbits - 1)))})
    return draw(st.one_of(st.sampled_from(edge), st.integers(a, b)))


@st.composite
def operand_for(draw, alt, isa_env, place, simple=False):
    """Structured operand accepted by `alt` whose values satisfy every configured constraint.
    place: {'address': int, 'consts': {name: value}, 'zones': {name:(s,e)}, 'size_hint': int}"""
    kind = alt['type']
    consts = place.get('consts') or {}
    zones = place['zones']

    def deco():
        d = alt.get('decorator')
        return None if d is None else [d['type'], bool(d.get('is_prefix', False))]

    if kind in ('numeric', 'indirect_numeric', 'deferred_numeric'):
        a = alt['argument']
        lo = hi = None
        if a.get('valid_address'):
            lo, hi = zones['GLOBAL']
            hi = min(hi, (1 << a['size']) - 1)
            if lo > hi:
                return None
        v = field_value(draw, a['size'], lo, hi)
        k = {'numeric': 'expr', 'indirect_numeric': 'indnum', 'deferred_numeric': 'defnum'}[kind]
        return {'k': k, 'e': value_ast(draw, v, consts, simple=(simple or k != 'expr'))}
    if kind == 'address':
        a = alt['argument']
        zlo, zhi = zones[a.get('memory_zone', 'GLOBAL')]
        n = a['size']
        if a.get('slice_lsb'):
            base = (place['address'] >> n) << n
            cands_lo, cands_hi = max(zlo, base), min(zhi, base + (1 << n) - 1)
            if cands_lo > cands_hi:
                return None
            v = draw(st.one_of(st.sampled_from([cands_lo, cands_hi]), st.integers(cands_lo, cands_hi)))
        else:
            hi = min(zhi, (1 << n) - 1)
            if zlo > hi:
                return None
            v = draw(st.one_of(st.sampled_from([zlo, hi]), st.integers(zlo, hi)))
        return {'k': 'expr', 'e': value_ast(draw, v, consts), 'addr_dep': bool(a.get('slice_lsb'))}
    if kind == 'relative_address':
        a = alt['argument']
        n = a['size']
        lo = max(-(1 << (n - 1)), a.get('min', -(1 << 70)))
        hi = min((1 << n) - 1, a.get('max', 1 << 70))
        glo, ghi = zones['GLOBAL']
        end_adj = (place['size_hint'] - 1) if alt.get('offset_from_instruction_end') else 0
        # target = address + offset + end_adj must be a GLOBAL address
        lo = max(lo, glo - place['address'] - end_adj)
        hi = min(hi, ghi - place['address'] - end_adj)
        if lo > hi:
            return None
        off = draw(st.one_of(st.sampled_from([lo, hi, min(hi, max(lo, 0))]), st.integers(lo, hi)))
        t = place['address'] + off + end_adj
        return {'k': 'braced' if alt.get('use_curly_braces') else 'expr', 'e': value_ast(draw, t, consts, simple=False),
                'addr_dep': True, 'rel_off': off}
    if kind == 'numeric_bytecode':
        bc = alt['bytecode']
        lo, hi = max(bc['min'], -(1 << (bc['size'] - 1))), min(bc['max'], (1 << bc['size']) - 1)
        if lo > hi:
            return None
        v = draw(st.one_of(st.sampled_from([lo, hi]), st.integers(lo, hi)))
        return {'k': 'expr', 'e': value_ast(draw, v, consts)}
    if kind == 'numeric_enumeration':
        d = (alt.get('bytecode') or {}).get('value_dict') or alt['argument']['value_dict']
        v = draw(st.sampled_from(sorted(d)))
        return {'k': 'expr', 'e': value_ast(draw, v, consts)}
    if kind == 'enumeration':
        return {'k': 'enum', 'key': draw(st.sampled_from(sorted(alt['argument']['value_dict'])))}
    if kind == 'register':
        return {'k': 'reg', 'r': alt['register'], 'deco': deco()}
    if kind == 'indirect_register':
        op = {'k': 'indreg', 'r': alt['register'], 'deco': deco(), 'sign': None, 'off': None}
        if 'offset' in alt and draw(st.integers(0, 3)) != 0:
            n = alt['offset']['size']
            v = field_value(draw, n)
            op['sign'] = '-' if v < 0 else '+'
            if v == 0 and draw(st.booleans()):
                op['sign'] = '-'
            op['off'] = value_ast(draw, abs(v), consts, simple=True)
            if op['off'][0] != 'num' and op['off'][0] != 'lab':
                op['off'] = ['par', op['off']]
            m = abs(v)
            if m < (1 << 20) and draw(st.integers(0, 4)) == 0:
                # a product, quotient or remainder without parentheses: it binds tighter than the sign in front of it
                q = draw(st.integers(m + 1, m + 9))
                form = draw(st.sampled_from(['%', '%', '/', '*']))
                if form == '%':
                    op['off'] = ['bin', '%', ['num', m + q * draw(st.integers(0, 3)), 'dec'], ['num', q, 'dec']]
                elif form == '/':
                    d = draw(st.integers(1, 7))
                    op['off'] = ['bin', '/', ['num', m * d + draw(st.integers(0, d - 1)), 'dec'], ['num', d, 'dec']]
                else:
                    f = draw(st.sampled_from([d for d in (1, 2, 3, 5, 7) if m % d == 0]))
                    op['off'] = ['bin', '*', ['num', m // f, 'dec'], ['num', f, 'dec']]
        return op
    if kind in ('indexed_register', 'indirect_indexed_register'):
        iid = draw(st.sampled_from(sorted(alt['index_operands'])))
        ialt = alt['index_operands'][iid]
        if ialt['type'] in ('numeric_bytecode', 'numeric_enumeration'):
            # these read exactly one expression token in the index position (nothing documents more): a literal or a
            # named constant; a negative value can only be written as a constant the caller agreed to define
            if ialt['type'] == 'numeric_bytecode':
                isz = ialt['bytecode']['size']
                lo, hi = max(ialt['bytecode']['min'], -(1 << (isz - 1))), min(ialt['bytecode']['max'], (1 << isz) - 1)
                if 'minted' not in place:
                    lo = max(lo, 0)
                    if lo > hi:
                        return None
                v = draw(st.one_of(st.sampled_from([lo, hi] + ([lo, -1] if lo < 0 <= hi else [])), st.integers(lo, hi)))
            else:
                v = draw(st.sampled_from(sorted(ialt['bytecode']['value_dict'])))
            if v < 0 or ('minted' in place and draw(st.integers(0, 2)) == 0):
                name = next((n for n, x in place['minted'].items() if x == v), None)
                if name is None:
                    name = ['IX_A', 'ix_b', 'Ix_c', 'IX_D', 'ix_e', 'IX_F', 'ix_g', 'IX_H'][len(place['minted']) % 8]
                    if name in place['minted']:
                        return None
                    place['minted'][name] = v
                idx = {'k': 'expr', 'e': ['lab', name]}
            else:
                idx = {'k': 'expr', 'e': _lit(v, draw, ('dec', 'hex$', 'hexH', 'bin%'))}
        else:
            idx = draw(operand_for(ialt, isa_env, place, simple=True))
        if idx is None:
            return None
        op = {'k': 'idxreg' if kind == 'indexed_register' else 'indidx', 'r': alt['register'], 'idx': idx}
        if kind == 'indirect_indexed_register':
            op['deco'] = deco()
        return op
    if kind == 'empty':
        return None
    raise ValueError(kind)


# ------------------------------------------------------------------------------------------------
# rendering

def _deco_wrap(text, deco):
    if deco is None:
        return text
    t = DECO_TEXT[deco[0]]
    return (t + text) if deco[1] else (text + t)


def render_operand(op, sp=' ', case=None) -> str:
    k = op['k']
    if k == 'raw':
        return op['text']        # verbatim (an operand followed by text that belongs to nothing)

    def reg(r):
        return case(r) if case else r
    if k == 'expr':
        return exprs.render(op['e'], sp)
    if k == 'braced':
        return '{' + exprs.render(op['e'], sp) + '}'
    if k == 'reg':
        return _deco_wrap(reg(op['r']), op.get('deco'))
    if k == 'enum':
        return op['key']
    if k == 'idxreg':
        return reg(op['r']) + sp + '+' + sp + render_operand(op['idx'], sp, case)
    if k == 'indreg':
        inner = reg(op['r'])
        if op.get('off') is not None:
            inner += sp + op['sign'] + sp + exprs.render(op['off'], sp)
        return _deco_wrap('[' + inner + ']', op.get('deco'))
    if k == 'indidx':
        return _deco_wrap('[' + reg(op['r']) + sp + '+' + sp + render_operand(op['idx'], sp, case) + ']', op.get('deco'))
    b = sp if sp in ('  ', '\t', ' \t') else ''      # wide spacing also goes between brackets and what they enclose
    if k == 'indnum':
        return '[' + b + exprs.render(op['e'], sp) + b + ']'
    if k == 'defnum':
        return '[' + b + '[' + b + exprs.render(op['e'], sp) + b + ']' + b + ']'
    raise ValueError(k)


def render_statement(mn, ops, sp=' ', sep=', ', case=None, mcase=None) -> str:
    m = mcase(mn) if mcase else mn
    if not ops:
        return m
    return m + ' ' + sep.join(render_operand(o, sp, case) for o in ops)


def dump_isa(cfg: dict, fmt='yaml') -> tuple:
    """-> (filename, text)."""
    if fmt == 'json':
        import json
        return 'isa.json', json.dumps(cfg, indent=1)
    import yaml
    return 'isa.yaml', yaml.safe_dump(cfg, sort_keys=False, default_flow_style=False)


def has_int_keys(obj) -> bool:
    if isinstance(obj, dict):
        return any(isinstance(k, int) for k in obj) or any(has_int_keys(v) for v in obj.values())
    if isinstance(obj, list):
        return any(has_int_keys(v) for v in obj)
    return False


def fix_int_keys(cfg: dict) -> dict:
    """JSON round trips turn the integer keys of numeric_enumeration value_dicts into strings: undo (idempotent)."""
    def walk(o):
        if isinstance(o, dict):
            if o.get('type') == 'numeric_enumeration':
                for sec in ('bytecode', 'argument'):
                    vd = (o.get(sec) or {}).get('value_dict')
                    if vd is not None:
                        o[sec]['value_dict'] = {int(k): v for k, v in vd.items()}
            for v in o.values():
                walk(v)
        elif isinstance(o, list):
            for v in o:
                walk(v)
    walk(cfg)
    return cfg

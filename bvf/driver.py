"""Shard / survey / shrink / report driver shared by all property checks.

A property module provides
    ID, LEVEL, TECHNIQUE, RULE, ASSUMPTIONS, BUDGET = {'quick': n, 'thorough': n}
    strategy(tier)            -> hypothesis strategy of JSON-serialisable cases
    execute(case, ctx)        -> Outcome
and optionally  run_shard(shard)  (stateful properties drive Hypothesis themselves),
                extra_phase(tier, seed, report)  (e.g. atheris campaigns, regression sets).

Survey-then-shrink: during the survey the property function never raises; every oracle disagreement
is recorded as (signature, case) so that generation continues and all root causes behind a shallow
one are seen.  Every signature that known_findings.json does not list as open is then shrunk with
Hypothesis' shrinker (same shard seed, assertion on that signature only) and written as a replay.
"""
from __future__ import annotations

import collections
import hashlib
import importlib
import json
import multiprocessing as mp
import os
import sys
import time
import traceback

import hypothesis
from hypothesis import HealthCheck, Phase, given, settings

from . import runner

VERIF = os.path.dirname(os.path.dirname(os.path.abspath(__file__)))
KNOWN_FILE = os.path.join(VERIF, 'known_findings.json')
# sensitivity runs against patched scratch copies write their replays/evidence elsewhere
OUT = os.environ.get('VERIF_OUT_DIR') or VERIF
NSHARDS = min(16, os.cpu_count() or 1)


class Finding:
    __slots__ = ('sig', 'detail')

    def __init__(self, sig: str, detail=None):
        self.sig = sig
        self.detail = detail or {}


class Outcome:
    """What one generated case amounted to."""
    __slots__ = ('findings', 'nontrivial', 'classes', 'evals', 'excluded', 'sample')

    def __init__(self, findings=None, nontrivial=False, classes=(), evals=1, excluded=(), sample=None):
        self.findings = list(findings or [])
        self.nontrivial = nontrivial
        self.classes = list(classes)
        self.evals = evals
        self.excluded = list(excluded)
        self.sample = sample


def canon(case) -> str:
    return json.dumps(case, sort_keys=True, separators=(',', ':'), default=str)


def digest(case) -> bytes:
    return hashlib.sha1(canon(case).encode()).digest()[:10]


def shard_seed(seed: int, pid: str, k: int) -> int:
    return int.from_bytes(hashlib.sha256(f'{seed}:{pid}:{k}'.encode()).digest()[:8], 'big')


def hsettings(n: int, shrink: bool = False) -> settings:
    return settings(
        max_examples=n, database=None, deadline=None, derandomize=False, report_multiple_bugs=False,
        phases=[Phase.generate, Phase.shrink] if shrink else [Phase.generate],
        suppress_health_check=[HealthCheck.too_slow, HealthCheck.data_too_large, HealthCheck.large_base_example],
        print_blob=False,
    )


class ShardAcc:
    """Accumulates what one shard explored."""

    def __init__(self, pid, k, seed, n, tier):
        self.pid, self.k, self.seed, self.n, self.tier = pid, k, seed, n, tier
        self.cases = 0
        self.evals = 0
        self.nt = set()
        self.classes = collections.Counter()
        self.excluded = collections.Counter()
        self.findings = {}          # sig -> [(size, case, detail)]
        self.finding_counts = collections.Counter()
        self.samples = []
        self.crosschecks = 0
        self.errors = []

    def add(self, case, out: Outcome):
        self.cases += 1
        self.evals += out.evals
        for c in out.classes:
            self.classes[c] += 1
        for c in out.excluded:
            self.excluded[c] += 1
        if out.nontrivial:
            d = digest(case)
            if d not in self.nt:
                self.nt.add(d)
                if len(self.samples) < 2 or (len(self.samples) < 4 and self.cases % 97 == 0):
                    self.samples.append(out.sample if out.sample is not None else case)
        for f in out.findings:
            if f.sig.endswith('/timeout') and self.pid != 'C14':
                # hitting the per-run time limit decides nothing about this property (termination is C14's, which
                # confirms a hang before reporting it): counted, never reported
                self.classes['inconclusive:run-hit-the-time-limit'] += 1
                self.excluded['run hit the time limit (inconclusive)'] += 1
                continue
            self.finding_counts[f.sig] += 1
            lst = self.findings.setdefault(f.sig, [])
            size = len(canon(case))
            if len(lst) < 3 or size < lst[-1][0]:
                lst.append((size, case, f.detail))
                lst.sort(key=lambda t: t[0])
                del lst[3:]

    def result(self):
        self.crosschecks = runner.CROSSCHECKS
        return {
            'k': self.k, 'seed': self.seed, 'cases': self.cases, 'evals': self.evals,
            'nt': self.nt, 'classes': dict(self.classes), 'excluded': dict(self.excluded),
            'findings': self.findings, 'finding_counts': dict(self.finding_counts),
            'samples': self.samples, 'crosschecks': self.crosschecks, 'errors': self.errors,
        }


def load_prop(pid: str):
    return importlib.import_module(f'bvf.props.{pid.lower()}')


def _default_run_shard(prop, acc: ShardAcc):
    strat = prop.strategy(acc.tier)
    ctx = {'tier': acc.tier, 'acc': acc}

    @hypothesis.seed(acc.seed)
    @hsettings(acc.n)
    @given(strat)
    def survey(case):
        out = prop.execute(case, ctx)
        acc.add(case, out)

    survey()


def _shard_entry(args):
    pid, k, seed, n, tier = args
    os.environ.setdefault('PYTHONHASHSEED', '0')
    try:
        prop = load_prop(pid)
        acc = ShardAcc(pid, k, seed, n, tier)
        if hasattr(prop, 'run_shard'):
            prop.run_shard(acc)
        else:
            _default_run_shard(prop, acc)
        return acc.result()
    except BaseException:
        return {'k': k, 'seed': seed, 'fatal': traceback.format_exc()}


class _Stop(BaseException):
    pass


def shrink_signature(prop, tier, seed, n, sig, initial, budget_s):
    """Re-run the finding shard asserting on one signature; Hypothesis shrinks; keep the smallest seen."""
    best = {'size': len(canon(initial[1])), 'case': initial[1], 'detail': initial[2]}
    deadline = time.monotonic() + budget_s
    ctx = {'tier': tier, 'acc': None}
    if not hasattr(prop, 'strategy'):
        return best
    strat = prop.strategy(tier)

    @hypothesis.seed(seed)
    @hsettings(n, shrink=True)
    @given(strat)
    def hunt(case):
        if time.monotonic() > deadline:
            raise _Stop()
        out = prop.execute(case, ctx)
        for f in out.findings:
            if f.sig == sig:
                size = len(canon(case))
                if size < best['size']:
                    best.update(size=size, case=case, detail=f.detail)
                raise AssertionError(sig)

    try:
        hunt()
    except BaseException:
        pass
    return best


def load_known():
    if not os.path.exists(KNOWN_FILE):
        return []
    with open(KNOWN_FILE) as f:
        return json.load(f).get('findings', [])


def write_replay(pid, sig, case, detail) -> str:
    d = os.path.join(OUT, 'replays', pid)
    os.makedirs(d, exist_ok=True)
    h = hashlib.sha1(canon(case).encode()).hexdigest()[:10]
    name = sig.replace('/', '_').replace(' ', '_')
    path = os.path.join(d, f'{name}-{h}.json')
    with open(path, 'w') as f:
        json.dump({'property': pid, 'signature': sig, 'case': case, 'detail': detail}, f, indent=1, sort_keys=True,
                  default=str)
    return path


def replay_file(prop, path, tier='quick'):
    with open(path) as f:
        doc = json.load(f)
    out = prop.execute(doc['case'], {'tier': tier, 'acc': None, 'replay': True})
    return doc, out


def regress_dir(pid):
    return os.path.join(VERIF, 'regress', pid)


def run_check(pid: str, tier: str, seed: int) -> int:
    t0 = time.monotonic()
    prop = load_prop(pid)
    known = [k for k in load_known() if k['property'] == pid]
    open_sigs = {k['signature']: k for k in known if k.get('status') == 'open'}
    violations = []      # (sig, path)
    known_seen = {}
    report = {'regress_replayed': 0, 'extra': {}}

    # 1. seconds-long replay tier: saved minimal inputs of fixed defects / earlier findings
    rdir = regress_dir(pid)
    if os.path.isdir(rdir):
        for fn in sorted(os.listdir(rdir)):
            if not fn.endswith('.json'):
                continue
            p = os.path.join(rdir, fn)
            doc, out = replay_file(prop, p, tier)
            report['regress_replayed'] += 1
            for f in out.findings:
                if f.sig in open_sigs:
                    known_seen[f.sig] = known_seen.get(f.sig, 0) + 1
                else:
                    violations.append((f.sig, p))

    # 2. generated survey, sharded
    total = prop.BUDGET[tier]
    nsh = min(NSHARDS, max(1, total // getattr(prop, 'SHARD_MIN', 50)))
    per = -(-total // nsh)
    jobs = [(pid, k, shard_seed(seed, pid, k), per, tier) for k in range(nsh)]
    if nsh == 1:
        results = [_shard_entry(jobs[0])]
    else:
        with mp.get_context('fork').Pool(nsh) as pool:
            results = pool.map(_shard_entry, jobs, chunksize=1)
    fatal = [r for r in results if 'fatal' in r]
    if fatal:
        sys.stderr.write('HARNESS ERROR in shard:\n' + fatal[0]['fatal'] + '\n')
        return 2

    cases = sum(r['cases'] for r in results)
    evals = sum(r['evals'] for r in results)
    nt = set()
    classes = collections.Counter()
    excluded = collections.Counter()
    fcounts = collections.Counter()
    samples = []
    crosschecks = 0
    by_sig = {}
    for r in results:
        nt |= r['nt']
        classes.update(r['classes'])
        excluded.update(r['excluded'])
        fcounts.update(r['finding_counts'])
        crosschecks += r['crosschecks']
        for s in r['samples']:
            if len(samples) < 5:
                samples.append(s)
        for sig, lst in r['findings'].items():
            for item in lst:
                cur = by_sig.get(sig)
                if cur is None or item[0] < cur[1][0]:
                    by_sig[sig] = (r, item)
        if r['errors']:
            sys.stderr.write('HARNESS ERROR: ' + r['errors'][0] + '\n')
            return 2

    # 3. optional extra phase (fuzz campaigns, exhaustive catalogues ...)
    if hasattr(prop, 'extra_phase'):
        extra = prop.extra_phase(tier, seed)
        report['extra'] = extra.get('report', {})
        evals += extra.get('evals', 0)
        cases += extra.get('cases', 0)
        for sig, case, detail in extra.get('findings', []):
            fcounts[sig] += 1
            if sig not in by_sig:
                by_sig[sig] = (None, (len(canon(case)), case, detail))
        for s in extra.get('samples', []):
            if len(samples) < 8:
                samples.append(s)
        nt |= set(extra.get('nt', ()))

    # 4. classify findings, shrink the unknown ones
    shrink_left = 120 if tier == 'quick' else 900
    if os.environ.get('VERIF_NO_SHRINK'):
        shrink_left = 0          # sensitivity runs only ask whether something is found, not for the smallest input
    for sig, (r, item) in sorted(by_sig.items()):
        if sig in open_sigs:
            known_seen[sig] = known_seen.get(sig, 0) + fcounts[sig]
            continue
        budget = min(shrink_left, 45 if tier == 'quick' else 240)
        ts = time.monotonic()
        if r is not None and budget > 5 and hasattr(prop, 'shrink'):
            best = prop.shrink(tier, r['seed'], per, sig, item, budget)
        elif r is not None and budget > 5:
            best = shrink_signature(prop, tier, r['seed'], per, sig, item, budget)
        else:
            best = {'case': item[1], 'detail': item[2]}
        shrink_left -= time.monotonic() - ts
        path = write_replay(pid, sig, best['case'], best['detail'])
        violations.append((sig, path))

    for sig, cnt in sorted(known_seen.items()):
        print(f"KNOWN-FINDING: property={pid} {open_sigs[sig]['what_fails']} [signature={sig}, seen {cnt}x this run]")
    seen = set()
    for sig, path in violations:
        if (sig, path) in seen:
            continue
        seen.add((sig, path))
        print(f'VIOLATION property={pid} replay={path}')
        print(f'  signature={sig}')

    wall = time.monotonic() - t0
    coverage = {
        'evaluations': int(evals),
        'cases_generated': int(cases),
        'distinct_nontrivial': len(nt),
        'rule': prop.RULE,
        'samples': samples[:6] if samples else [{'note': 'no non-trivial sample recorded'}],
        'class_histogram': dict(sorted(classes.items())),
        'excluded_by_construction': dict(sorted(excluded.items())),
        'finding_signatures': dict(sorted(fcounts.items())),
        'known_findings_seen': known_seen,
        'runner_crosschecks': crosschecks,
        'regress_replayed': report['regress_replayed'],
        'shards': nsh,
        'technique': getattr(prop, 'TECHNIQUE', ''),
    }
    if report['extra']:
        coverage['extra_phase'] = report['extra']
    ev = {
        'property_id': pid, 'tier': tier, 'seed': int(seed), 'level': prop.LEVEL,
        'coverage': coverage, 'assumptions': list(getattr(prop, 'ASSUMPTIONS', [])),
        'wall_s': round(wall, 2), 'violations': len(seen),
    }
    os.makedirs(os.path.join(OUT, 'evidence'), exist_ok=True)
    with open(os.path.join(OUT, 'evidence', f'{pid}.json'), 'w') as f:
        json.dump(ev, f, indent=1, sort_keys=True, default=str)
    print(f'{pid} {tier} seed={seed}: cases={cases} evaluations={evals} distinct_nontrivial={len(nt)} '
          f'violations={len(seen)} known={len(known_seen)} wall={wall:.1f}s')
    return 1 if seen else 0


def run_replay(pid: str, path: str) -> int:
    prop = load_prop(pid)
    doc, out = replay_file(prop, path)
    known = {k['signature'] for k in load_known() if k['property'] == pid and k.get('status') == 'open'}
    bad = [f for f in out.findings if f.sig not in known]
    for f in out.findings:
        print(f'finding signature={f.sig}')
        print(json.dumps(f.detail, indent=1, default=str)[:4000])
    if bad:
        print(f'VIOLATION property={pid} replay={path}')
        return 1
    print(f'replay {path}: no violation')
    return 0

"""Independent reference model of the assembler (never imports bespokeasm, never parses assembly text).

It consumes the *structured* program the generators build and the ISA definition as a plain dict in
the documented configuration format, and produces what the properties say must come out:
bit-packed instruction bytes, operand selection, constraint verdicts, the two-pass layout, label
values, the memory map and the binary image.
"""
from __future__ import annotations

from . import exprs

BRACKETED = ('indirect_register', 'indirect_indexed_register', 'indirect_numeric', 'deferred_numeric',
             'indexed_register')
KEYED = ('enumeration', 'register')
PLAIN = ('numeric', 'address', 'relative_address', 'numeric_bytecode', 'numeric_enumeration')

KEYWORDS = {'org', 'memzone', 'align', 'fill', 'zero', 'zerountil', 'byte', '2byte', '4byte', '8byte', 'cstr',
            'asciiz', 'include', 'require', 'create_memzone', 'define', 'if', 'elif', 'else', 'endif', 'ifdef',
            'ifndef', 'mute', 'unmute', 'emit', 'LSB'} | {f'BYTE{i}' for i in range(10)}


class Reject(Exception):
    """The property says this program / statement must be rejected."""

    def __init__(self, why):
        super().__init__(why)
        self.why = why


class Unspecified(Exception):
    """The properties leave the outcome open; the case must not be asserted."""


# ------------------------------------------------------------------------------------------------
# bit packing

def field_bits(value: int, nbits: int, endian: str) -> str:
    """nbits-wide two's-complement image of value as a bit string in emission order."""
    if nbits == 0:
        return ''
    v = value % (1 << nbits)
    if endian == 'big' or nbits <= 8:
        return format(v, f'0{nbits}b')
    out = ''
    full = nbits // 8
    for i in range(full):
        out += format((v >> (8 * i)) & 0xFF, '08b')
    rem = nbits % 8
    if rem:
        out += format(v >> (8 * full), f'0{rem}b')
    return out


def pack(fields) -> bytes:
    """fields: (value, nbits, byte_align, endian). MSB-first packing, aligned fields start on a byte
    boundary, zero padded to whole bytes."""
    bits = ''
    for value, nbits, align, endian in fields:
        if align and len(bits) % 8:
            bits += '0' * (8 - len(bits) % 8)
        bits += field_bits(value, nbits, endian)
    if len(bits) % 8:
        bits += '0' * (8 - len(bits) % 8)
    return bytes(int(bits[i:i + 8], 2) for i in range(0, len(bits), 8))


def size_of(fields) -> int:
    n = 0
    for _, nbits, align, _ in fields:
        if align and n % 8:
            n += 8 - n % 8
        n += nbits
    return (n + 7) // 8


def fits(value: int, nbits: int) -> bool:
    return -(1 << (nbits - 1)) <= value < (1 << nbits) if nbits > 0 else value == 0


# ------------------------------------------------------------------------------------------------
# ISA helpers

class Isa:
    def __init__(self, cfg: dict):
        self.cfg = cfg
        g = cfg['general']
        self.endian = g.get('endian', 'big')
        self.address_size = g['address_size']
        self.registers = list(g.get('registers') or [])
        self.origin = g.get('origin', 0)
        self.page_size = g.get('page_size', 1)
        self.cstr_terminator = int(g.get('cstr_terminator', 0)) & 0xFF
        self.embedded_strings = bool(g.get('allow_embedded_strings', False))
        pre = cfg.get('predefined') or {}
        self.constants = {c['name']: c['value'] for c in pre.get('constants', [])}
        self.data_blocks = list(pre.get('data', []))
        self.symbols = [(s['name'], s.get('value', '')) for s in pre.get('symbols', [])]
        self.zones = {}
        for z in pre.get('memory_zones', []):
            self.zones[z['name']] = (z['start'], z['end'])
        if 'GLOBAL' not in self.zones:
            self.zones['GLOBAL'] = (0, (1 << self.address_size) - 1)
        self.operand_sets = cfg.get('operand_sets') or {}
        self.instructions = {k.lower(): v for k, v in (cfg.get('instructions') or {}).items()}
        self.macros = {k.lower(): v for k, v in (cfg.get('macros') or {}).items()}

    def variants(self, mnemonic: str):
        ic = self.instructions[mnemonic]
        out = []
        if 'bytecode' in ic:
            out.append(ic)
        out.extend(ic.get('variants', []))
        return out

    def macro_variants(self, mnemonic: str):
        return list(self.macros[mnemonic])


def alt_class(kind: str) -> int:
    if kind in BRACKETED:
        return 0
    if kind in KEYED:
        return 1
    return 2


def _same_deco(alt: dict, op: dict) -> bool:
    d = alt.get('decorator')
    want = None if d is None else [d['type'], bool(d.get('is_prefix', False))]
    got = op.get('deco')
    return want == (list(got) if got is not None else None)


def alt_accepts(alt: dict, op: dict, isa: Isa) -> bool:
    """Structural acceptance of a structured operand by one configured operand alternative."""
    kind = alt['type']
    k = op['k']
    # an enumeration key is textually an identifier: any plain-expression alternative reads it as a label
    if kind in ('numeric', 'address', 'numeric_bytecode', 'numeric_enumeration'):
        return k in ('expr', 'enum')
    if kind == 'relative_address':
        if alt.get('use_curly_braces', False):
            return k == 'braced'
        return k in ('expr', 'enum')
    if kind == 'register':
        return k == 'reg' and op['r'].lower() == alt['register'].lower() and _same_deco(alt, op)
    if kind == 'indirect_register':
        if k == 'indidx' and op['r'].lower() == alt['register'].lower() and 'offset' not in alt:
            raise Unspecified('indexed form offered to an indirect register configured without an offset')
        if not (k == 'indreg' and op['r'].lower() == alt['register'].lower() and _same_deco(alt, op)):
            return False
        if op.get('off') is not None and 'offset' not in alt:
            raise Unspecified('offset given to an indirect register configured without one')
        return True
    if kind in ('indexed_register', 'indirect_indexed_register'):
        want = 'idxreg' if kind == 'indexed_register' else 'indidx'
        if not (k == want and op['r'].lower() == alt['register'].lower()):
            return False
        if kind == 'indirect_indexed_register' and not _same_deco(alt, op):
            return False
        return any(alt_accepts(ia, op['idx'], isa) for ia in alt['index_operands'].values())
    if kind == 'indirect_numeric':
        return k == 'indnum'
    if kind == 'deferred_numeric':
        return k == 'defnum'
    if kind == 'enumeration':
        keys = (alt.get('argument') or {}).get('value_dict') or {}
        if k == 'enum':
            return op['key'] in keys
        # an identifier that is both a defined label and an enumeration key reads as the key
        return k == 'expr' and op['e'][0] == 'lab' and op['e'][1] in keys
    if kind == 'empty':
        return False
    raise ValueError(kind)


def select_in_set(set_cfg: dict, op: dict, isa: Isa):
    """-> (alt_id, alt_cfg) chosen by the documented priority, or None."""
    cands = [(aid, a) for aid, a in set_cfg['operand_values'].items() if alt_accepts(a, op, isa)]
    if not cands:
        return None
    kinds = {a['type'] for a in set_cfg['operand_values'].values()}
    if op['k'] == 'enum' and 'numeric_enumeration' in kinds:
        raise Unspecified('enumeration key offered to a set that also has a numeric_enumeration')
    best = min(alt_class(a['type']) for _, a in cands)
    top = [c for c in cands if alt_class(c[1]['type']) == best]
    if len(top) > 1:
        raise Unspecified('several alternatives of one priority class accept the operand')
    return top[0]


def match_variant(variant: dict, ops: list, isa: Isa):
    """-> (matched [(alt_id, alt_cfg, op)], reverse_args, reverse_codes) or None."""
    oc = variant.get('operands')
    if oc is None:
        return ([], False, False) if not ops else None
    count = oc.get('count', 0)
    if count == 0 and not ops:
        return ([], False, False)
    for _, spec in (oc.get('specific_operands') or {}).items():
        alts = list(spec.get('list', {}).items())
        if len(alts) != count:
            raise Unspecified('specific operand list length differs from count')
        matched = []
        it = iter(ops)
        ok = True
        for aid, a in alts:
            if a['type'] == 'empty':
                matched.append((aid, a, None))
                continue
            op = next(it, None)
            if op is None or not alt_accepts(a, op, isa):
                ok = False
                break
            matched.append((aid, a, op))
        if ok and next(it, None) is None:
            return (matched, bool(spec.get('reverse_argument_order', False)),
                    bool(spec.get('reverse_bytecode_order', False)))
    sets = oc.get('operand_sets')
    if sets is not None and len(ops) == count == len(sets['list']):
        matched = []
        for sname, op in zip(sets['list'], ops):
            sel = select_in_set(isa.operand_sets[sname], op, isa)
            if sel is None:
                return None
            matched.append((sel[0], sel[1], op))
        if [m[0] for m in matched] in [list(p) for p in sets.get('disallowed_pairs', [])]:
            return None
        return (matched, bool(sets.get('reverse_argument_order', False)),
                bool(sets.get('reverse_bytecode_order', False)))
    return None


def select_variant(variants: list, ops: list, isa: Isa):
    for i, v in enumerate(variants):
        m = match_variant(v, ops, isa)
        if m is not None:
            return i, v, m
    raise Reject('no variant accepts the operands')


# ------------------------------------------------------------------------------------------------
# per-operand fields

class Ctx:
    """Evaluation context of one statement."""

    def __init__(self, isa: Isa, resolve, address: int, zones: dict):
        self.isa = isa
        self.resolve = resolve          # callable(name) -> int, raises Reject when not visible
        self.address = address
        self.zones = zones              # name -> (start, end)
        self.size = None                # instruction size, known after the field list is built

    def ev(self, ast) -> int:
        return eval_ast(ast, self.resolve)


class _Lazy(dict):
    def __init__(self, resolve):
        super().__init__()
        self._r = resolve

    def __contains__(self, k):
        try:
            self[k]
            return True
        except Reject:
            raise

    def __missing__(self, k):
        v = self._r(k)
        self[k] = v
        return v


def eval_ast(ast, resolve) -> int:
    try:
        return exprs.value_of(ast, _Lazy(resolve))
    except exprs.Undefined as u:
        raise Unspecified(f'expression value undefined: {u}')


def _code_of(alt: dict):
    bc = alt.get('bytecode')
    if bc is None or 'value' not in bc:
        return None
    return (bc['value'], bc['size'])


def operand_fields(aid: str, alt: dict, op, ctx: Ctx):
    """-> (code, position, arg) with code = None | (nbits, valfn) and arg = None | (nbits, align, endian, valfn).
    Shapes are static (configuration only); valfn() evaluates late and may raise Reject/Unspecified."""
    isa = ctx.isa
    kind = alt['type']
    pos = (alt.get('bytecode') or {}).get('position', 'suffix')
    code = None
    arg = None
    if op is not None and op['k'] == 'enum' and kind != 'enumeration':
        op = {'k': 'expr', 'e': ['lab', op['key']]}
    bc = alt.get('bytecode')
    if bc is not None and 'value' in bc:
        code = (bc['size'], (lambda v=bc['value']: v))

    def argspec(section='argument'):
        a = alt[section]
        return a['size'], bool(a['byte_align']), a.get('endian', isa.endian)

    if kind in ('register', 'empty'):
        pass
    elif kind in ('numeric', 'indirect_numeric', 'deferred_numeric'):
        n, al, en = argspec()

        def fn(e=op['e']):
            v = ctx.ev(e)
            if alt['argument'].get('valid_address', False):
                lo, hi = ctx.zones['GLOBAL']
                if not lo <= v <= hi:
                    raise Reject('value is not a valid address')
            return v
        arg = (n, al, en, fn)
    elif kind == 'address':
        n, al, en = argspec()

        def fn(e=op['e']):
            v = ctx.ev(e)
            zname = alt['argument'].get('memory_zone', 'GLOBAL')
            lo, hi = ctx.zones[zname]
            if not lo <= v <= hi:
                raise Reject('address outside its memory zone')
            if alt['argument'].get('slice_lsb', False):
                if not alt['argument'].get('match_address_msb', False):
                    raise Unspecified('slice_lsb without match_address_msb')
                if (v >> n) != (ctx.address >> n):
                    raise Reject('high-order address bits differ from the instruction address')
                v &= (1 << n) - 1
            return v
        arg = (n, al, en, fn)
    elif kind == 'relative_address':
        n, al, en = argspec()

        def fn(e=op['e']):
            t = ctx.ev(e)
            lo, hi = ctx.zones['GLOBAL']
            if not lo <= t <= hi:
                raise Unspecified('relative target outside GLOBAL')
            v = t - ctx.address
            if alt.get('offset_from_instruction_end', False):
                v -= ctx.size - 1
            mx, mn = alt['argument'].get('max'), alt['argument'].get('min')
            if mx is not None and v > mx:
                raise Reject('relative offset above max')
            if mn is not None and v < mn:
                raise Reject('relative offset below min')
            return v
        arg = (n, al, en, fn)
    elif kind == 'numeric_bytecode':
        def fn(e=op['e']):
            v = ctx.ev(e)
            if v > bc['max'] or v < bc['min']:
                raise Reject('numeric bytecode outside min/max')
            return v
        code = (bc['size'], fn)
    elif kind == 'numeric_enumeration':
        ac = alt.get('argument')
        code = None
        if bc is not None and bc.get('value_dict') is not None:
            def cfn(e=op['e']):
                v = ctx.ev(e)
                if v not in bc['value_dict']:
                    raise Reject('value not in numeric enumeration')
                return bc['value_dict'][v]
            code = (bc['size'], cfn)
        if ac is not None and ac.get('value_dict') is not None:
            n, al, en = argspec()

            def afn(e=op['e']):
                v = ctx.ev(e)
                if v not in ac['value_dict']:
                    raise Reject('value not in numeric enumeration')
                return ac['value_dict'][v]
            arg = (n, al, en, afn)
    elif kind == 'enumeration':
        key = op['key'] if op['k'] == 'enum' else op['e'][1]
        code = None
        if bc is not None and bc.get('value_dict') is not None and key in bc['value_dict']:
            code = (bc['size'], (lambda: bc['value_dict'][key]))
        n, al, en = argspec()
        arg = (n, al, en, (lambda: alt['argument']['value_dict'][key]))
    elif kind == 'indirect_register':
        if 'offset' in alt:
            o = alt['offset']

            def fn():
                if op.get('off') is None:
                    return 0
                v = ctx.ev(op['off'])
                return -v if op.get('sign') == '-' else v
            arg = (o['size'], bool(o['byte_align']), o.get('endian', isa.endian), fn)
    elif kind in ('indexed_register', 'indirect_indexed_register'):
        if code is None:
            raise Unspecified('indexed register operand without its own code')
        ia_sel = [(i, a) for i, a in alt['index_operands'].items() if alt_accepts(a, op['idx'], isa)]
        best = min(alt_class(a['type']) for _, a in ia_sel)
        ia_sel = [c for c in ia_sel if alt_class(c[1]['type']) == best]
        if len(ia_sel) > 1:
            raise Unspecified('ambiguous index operand')
        icode, _, iarg = operand_fields(ia_sel[0][0], ia_sel[0][1], op['idx'], ctx)
        if icode is not None:
            rsz, rfn = code
            isz, ifn = icode

            def cfn():
                iv = ifn()
                if not fits(iv, isz):
                    raise Reject('index code does not fit')
                return (rfn() << isz) | (iv % (1 << isz))
            code = (rsz + isz, cfn)
        arg = iarg
    else:
        raise ValueError(kind)
    return code, pos, arg


def ordered_fields(variant: dict, matched, rev_args: bool, rev_codes: bool, ctx: Ctx, default_endian: str):
    """-> list of (nbits, align, endian, valfn) in emission order."""
    bc = variant['bytecode']
    iend = bc.get('endian', default_endian)
    prefix, suffix, args = [], [], []
    for aid, alt, op in matched:
        code, pos, arg = operand_fields(aid, alt, op, ctx)
        if code is not None:
            f = (code[0], False, 'big', code[1])
            if pos == 'prefix':
                prefix.insert(0, f)      # pinned: with several prefix codes the last operand's comes first
            else:
                suffix.append(f)
        if arg is not None:
            args.append(arg)
    if rev_codes:
        prefix.reverse()
        suffix.reverse()
    if rev_args:
        args.reverse()
    out = prefix + [(bc['size'], False, iend, (lambda: bc['value']))] + suffix
    if 'suffix' in bc:
        out.append((bc['suffix']['size'], False, iend, (lambda: bc['suffix']['value'])))
    return out + args


def encode_matched(variant, matched, rev_args, rev_codes, ctx: Ctx, default_endian: str) -> bytes:
    fl = ordered_fields(variant, matched, rev_args, rev_codes, ctx, default_endian)
    ctx.size = size_of([(0, n, al, en) for n, al, en, _ in fl])
    fields = []
    for n, al, en, fn in fl:
        v = fn()
        if not fits(v, n):
            raise Reject(f'value {v} does not fit {n} bits')
        fields.append((v, n, al, en))
    return pack(fields)


def select_statement(isa: Isa, mnemonic: str, ops: list):
    if mnemonic not in isa.instructions:
        raise Reject('unknown mnemonic')
    return select_variant(isa.variants(mnemonic), ops, isa)


def instruction_size(isa: Isa, mnemonic: str, ops: list) -> int:
    """Static: depends on the configuration and operand shapes only."""
    _, variant, (matched, ra, rc) = select_statement(isa, mnemonic, ops)
    ctx = Ctx(isa, None, 0, isa.zones)
    fl = ordered_fields(variant, matched, ra, rc, ctx, isa.endian)
    return size_of([(0, n, al, en) for n, al, en, _ in fl])


def encode_instruction(isa: Isa, mnemonic: str, ops: list, resolve, address: int, zones=None) -> bytes:
    _, variant, (matched, ra, rc) = select_statement(isa, mnemonic, ops)
    ctx = Ctx(isa, resolve, address, zones if zones is not None else isa.zones)
    return encode_matched(variant, matched, ra, rc, ctx, isa.endian)


def selected_variant_index(isa: Isa, mnemonic: str, ops: list) -> int:
    return select_statement(isa, mnemonic, ops)[0]

"""Independent reference model of the assembler (never imports bespokeasm, never parses assembly text).

It consumes the *structured* program the generators build and the ISA definition as a plain dict in
the documented configuration format, and produces what the properties say must come out:
bit-packed instruction bytes, operand selection, constraint verdicts, the two-pass layout, label
values, the memory map and the binary image.
"""
from __future__ import annotations

from . import exprs

BRACKETED = ('indirect_register', 'indirect_indexed_register', 'indirect_numeric', 'deferred_numeric',
             'indexed_register')
KEYED = ('enumeration', 'register')
PLAIN = ('numeric', 'address', 'relative_address', 'numeric_bytecode', 'numeric_enumeration')

KEYWORDS = {'org', 'memzone', 'align', 'fill', 'zero', 'zerountil', 'byte', '2byte', '4byte', '8byte', 'cstr',
            'asciiz', 'include', 'require', 'create_memzone', 'define', 'if', 'elif', 'else', 'endif', 'ifdef',
            'ifndef', 'mute', 'unmute', 'emit', 'LSB'} | {f'BYTE{i}' for i in range(10)}


class Reject(Exception):
    """The property says this program / statement must be rejected."""

    def __init__(self, why):
        super().__init__(why)
        self.why = why


class Unspecified(Exception):
    """The properties leave the outcome open; the case must not be asserted."""


# ------------------------------------------------------------------------------------------------
# bit packing

def field_bits(value: int, nbits: int, endian: str) -> str:
    """nbits-wide two's-complement image of value as a bit string in emission order."""
    if nbits == 0:
        return ''
    v = value % (1 << nbits)
    if endian == 'big' or nbits <= 8:
        return format(v, f'0{nbits}b')
    out = ''
    full = nbits // 8
    for i in range(full):
        out += format((v >> (8 * i)) & 0xFF, '08b')
    rem = nbits % 8
    if rem:
        out += format(v >> (8 * full), f'0{rem}b')
    return out


def pack(fields) -> bytes:
    """fields: (value, nbits, byte_align, endian). MSB-first packing, aligned fields start on a byte
    boundary, zero padded to whole bytes."""
    bits = ''
    for value, nbits, align, endian in fields:
        if align and len(bits) % 8:
            bits += '0' * (8 - len(bits) % 8)
        bits += field_bits(value, nbits, endian)
    if len(bits) % 8:
        bits += '0' * (8 - len(bits) % 8)
    return bytes(int(bits[i:i + 8], 2) for i in range(0, len(bits), 8))


def size_of(fields) -> int:
    n = 0
    for _, nbits, align, _ in fields:
        if align and n % 8:
            n += 8 - n % 8
        n += nbits
    return (n + 7) // 8


def fits(value: int, nbits: int) -> bool:
    return -(1 << (nbits - 1)) <= value < (1 << nbits) if nbits > 0 else value == 0


# ------------------------------------------------------------------------------------------------
# ISA helpers

class Isa:
    def __init__(self, cfg: dict):
        self.cfg = cfg
        g = cfg['general']
        self.endian = g.get('endian', 'big')
        self.address_size = g['address_size']
        self.registers = list(g.get('registers') or [])
        self.origin = g.get('origin', 0)
        self.page_size = g.get('page_size', 1)
        self.cstr_terminator = int(g.get('cstr_terminator', 0)) & 0xFF
        self.embedded_strings = bool(g.get('allow_embedded_strings', False))
        pre = cfg.get('predefined') or {}
        self.constants = {c['name']: c['value'] for c in pre.get('constants', [])}
        self.data_blocks = list(pre.get('data', []))
        self.symbols = [(s['name'], s.get('value', '')) for s in pre.get('symbols', [])]
        self.zones = {}
        for z in pre.get('memory_zones', []):
            self.zones[z['name']] = (z['start'], z['end'])
        if 'GLOBAL' not in self.zones:
            self.zones['GLOBAL'] = (0, (1 << self.address_size) - 1)
        self.operand_sets = cfg.get('operand_sets') or {}
        self.instructions = {k.lower(): v for k, v in (cfg.get('instructions') or {}).items()}
        self.macros = {k.lower(): v for k, v in (cfg.get('macros') or {}).items()}

    def variants(self, mnemonic: str):
        ic = self.instructions[mnemonic]
        out = []
        if 'bytecode' in ic:
            out.append(ic)
        out.extend(ic.get('variants', []))
        return out

    def macro_variants(self, mnemonic: str):
        return list(self.macros[mnemonic])


def alt_class(kind: str) -> int:
    if kind in BRACKETED:
        return 0
    if kind in KEYED:
        return 1
    return 2


def _same_deco(alt: dict, op: dict) -> bool:
    d = alt.get('decorator')
    want = None if d is None else [d['type'], bool(d.get('is_prefix', False))]
    got = op.get('deco')
    return want == (list(got) if got is not None else None)


def alt_accepts(alt: dict, op: dict, isa: Isa) -> bool:
    """Structural acceptance of a structured operand by one configured operand alternative."""
    kind = alt['type']
    k = op['k']
    # an enumeration key is textually an identifier: any plain-expression alternative reads it as a label
    # (a key such as "eq.l" is not an identifier: no expression alternative reads it)
    # ... and a key that is a decimal numeral ("1") is, for an expression alternative, the number
    as_label = k == 'enum' and (str(op['key']).isidentifier() or str(op['key']).isdigit())
    if kind in ('numeric', 'address', 'numeric_bytecode', 'numeric_enumeration'):
        return k == 'expr' or as_label
    if kind == 'relative_address':
        if alt.get('use_curly_braces', False):
            return k == 'braced'
        return k == 'expr' or as_label
    if kind == 'register':
        return k == 'reg' and op['r'].lower() == alt['register'].lower() and _same_deco(alt, op)
    if kind == 'indirect_register':
        if k == 'indidx' and op['r'].lower() == alt['register'].lower() and 'offset' not in alt:
            raise Unspecified('indexed form offered to an indirect register configured without an offset')
        if k == 'indidx' and op['r'].lower() == alt['register'].lower() and op['idx']['k'] in ('expr', 'enum') and _same_deco(alt, op):
            # "[hl + zf]" is also an indirect register with the offset expression "zf"
            raise Unspecified('indexed form with an expression index offered to an indirect register that takes an offset')
        if not (k == 'indreg' and op['r'].lower() == alt['register'].lower() and _same_deco(alt, op)):
            return False
        if op.get('off') is not None and 'offset' not in alt:
            raise Unspecified('offset given to an indirect register configured without one')
        return True
    if kind in ('indexed_register', 'indirect_indexed_register'):
        want = 'idxreg' if kind == 'indexed_register' else 'indidx'
        if not (k == want and op['r'].lower() == alt['register'].lower()):
            return False
        if kind == 'indirect_indexed_register' and not _same_deco(alt, op):
            return False
        return any(alt_accepts(ia, op['idx'], isa) for ia in alt['index_operands'].values())
    if kind == 'indirect_numeric':
        return k == 'indnum'
    if kind == 'deferred_numeric':
        return k == 'defnum'
    if kind == 'enumeration':
        keys = (alt.get('argument') or {}).get('value_dict') or {}
        if k == 'enum':
            return op['key'] in keys
        # an identifier that is both a defined label and an enumeration key reads as the key; so does a plain decimal
        # numeral that is a key
        if k == 'expr' and op['e'][0] == 'num' and op['e'][2] == 'dec':
            return str(op['e'][1]) in keys
        return k == 'expr' and op['e'][0] == 'lab' and op['e'][1] in keys
    if kind == 'empty':
        return False
    raise ValueError(kind)


def select_in_set(set_cfg: dict, op: dict, isa: Isa):
    """-> (alt_id, alt_cfg) chosen by the documented priority, or None."""
    cands = [(aid, a) for aid, a in set_cfg['operand_values'].items() if alt_accepts(a, op, isa)]
    if not cands:
        return None
    kinds = {a['type'] for a in set_cfg['operand_values'].values()}
    if op['k'] == 'enum' and 'numeric_enumeration' in kinds:
        raise Unspecified('enumeration key offered to a set that also has a numeric_enumeration')
    best = min(alt_class(a['type']) for _, a in cands)
    top = [c for c in cands if alt_class(c[1]['type']) == best]
    if len(top) > 1:
        raise Unspecified('several alternatives of one priority class accept the operand')
    return top[0]


def match_variant(variant: dict, ops: list, isa: Isa):
    """-> (matched [(alt_id, alt_cfg, op)], reverse_args, reverse_codes) or None."""
    oc = variant.get('operands')
    if oc is None:
        return ([], False, False) if not ops else None
    count = oc.get('count', 0)
    if count == 0 and not ops:
        return ([], False, False)
    for _, spec in (oc.get('specific_operands') or {}).items():
        alts = list(spec.get('list', {}).items())
        if len(alts) != count:
            raise Unspecified('specific operand list length differs from count')
        matched = []
        it = iter(ops)
        ok = True
        for aid, a in alts:
            if a['type'] == 'empty':
                matched.append((aid, a, None))
                continue
            op = next(it, None)
            if op is None or not alt_accepts(a, op, isa):
                ok = False
                break
            matched.append((aid, a, op))
        if ok and next(it, None) is None:
            return (matched, bool(spec.get('reverse_argument_order', False)),
                    bool(spec.get('reverse_bytecode_order', False)))
    sets = oc.get('operand_sets')
    if sets is not None and len(ops) == count == len(sets['list']):
        matched = []
        for sname, op in zip(sets['list'], ops):
            sel = select_in_set(isa.operand_sets[sname], op, isa)
            if sel is None:
                return None
            matched.append((sel[0], sel[1], op))
        if [m[0] for m in matched] in [list(p) for p in sets.get('disallowed_pairs', [])]:
            return None
        return (matched, bool(sets.get('reverse_argument_order', False)),
                bool(sets.get('reverse_bytecode_order', False)))
    return None


def select_variant(variants: list, ops: list, isa: Isa):
    for i, v in enumerate(variants):
        m = match_variant(v, ops, isa)
        if m is not None:
            return i, v, m
    raise Reject('no variant accepts the operands')


# ------------------------------------------------------------------------------------------------
# per-operand fields

class Ctx:
    """Evaluation context of one statement."""

    def __init__(self, isa: Isa, resolve, address: int, zones: dict):
        self.isa = isa
        self.resolve = resolve          # callable(name) -> int, raises Reject when not visible
        self.address = address
        self.zones = zones              # name -> (start, end)
        self.size = None                # instruction size, known after the field list is built

    def ev(self, ast) -> int:
        return eval_ast(ast, self.resolve)


class _Lazy(dict):
    def __init__(self, resolve):
        super().__init__()
        self._r = resolve

    def __contains__(self, k):
        try:
            self[k]
            return True
        except Reject:
            raise

    def __missing__(self, k):
        v = self._r(k)
        self[k] = v
        return v


def eval_ast(ast, resolve) -> int:
    try:
        return exprs.value_of(ast, _Lazy(resolve))
    except exprs.Undefined as u:
        raise Unspecified(f'expression value undefined: {u}')


def _code_of(alt: dict):
    bc = alt.get('bytecode')
    if bc is None or 'value' not in bc:
        return None
    return (bc['value'], bc['size'])


def operand_fields(aid: str, alt: dict, op, ctx: Ctx):
    """-> (code, position, arg) with code = None | (nbits, valfn) and arg = None | (nbits, align, endian, valfn).
    Shapes are static (configuration only); valfn() evaluates late and may raise Reject/Unspecified."""
    isa = ctx.isa
    kind = alt['type']
    pos = (alt.get('bytecode') or {}).get('position', 'suffix')
    code = None
    arg = None
    if op is not None and op['k'] == 'enum' and kind != 'enumeration':
        op = {'k': 'expr', 'e': ['num', int(op['key']), 'dec'] if str(op['key']).isdigit() else ['lab', op['key']]}
    bc = alt.get('bytecode')
    if bc is not None and 'value' in bc:
        code = (bc['size'], (lambda v=bc['value']: v))

    def argspec(section='argument'):
        a = alt[section]
        return a['size'], bool(a['byte_align']), a.get('endian', isa.endian)

    if kind in ('register', 'empty'):
        pass
    elif kind in ('numeric', 'indirect_numeric', 'deferred_numeric'):
        n, al, en = argspec()

        def fn(e=op['e']):
            v = ctx.ev(e)
            if alt['argument'].get('valid_address', False):
                lo, hi = ctx.zones['GLOBAL']
                if not lo <= v <= hi:
                    raise Reject('value is not a valid address')
            return v
        arg = (n, al, en, fn)
    elif kind == 'address':
        n, al, en = argspec()

        def fn(e=op['e']):
            v = ctx.ev(e)
            zname = alt['argument'].get('memory_zone', 'GLOBAL')
            lo, hi = ctx.zones[zname]
            if not lo <= v <= hi:
                raise Reject('address outside its memory zone')
            if alt['argument'].get('slice_lsb', False):
                if not alt['argument'].get('match_address_msb', False):
                    raise Unspecified('slice_lsb without match_address_msb')
                if (v >> n) != (ctx.address >> n):
                    raise Reject('high-order address bits differ from the instruction address')
                v &= (1 << n) - 1
            return v
        arg = (n, al, en, fn)
    elif kind == 'relative_address':
        n, al, en = argspec()

        def fn(e=op['e']):
            t = ctx.ev(e)
            lo, hi = ctx.zones['GLOBAL']
            if not lo <= t <= hi:
                raise Unspecified('relative target outside GLOBAL')
            v = t - ctx.address
            if alt.get('offset_from_instruction_end', False):
                v -= ctx.size - 1
            mx, mn = alt['argument'].get('max'), alt['argument'].get('min')
            if mx is not None and v > mx:
                raise Reject('relative offset above max')
            if mn is not None and v < mn:
                raise Reject('relative offset below min')
            return v
        arg = (n, al, en, fn)
    elif kind == 'numeric_bytecode':
        def fn(e=op['e']):
            v = ctx.ev(e)
            if v > bc['max'] or v < bc['min']:
                raise Reject('numeric bytecode outside min/max')
            return v
        code = (bc['size'], fn)
    elif kind == 'numeric_enumeration':
        ac = alt.get('argument')
        code = None
        if bc is not None and bc.get('value_dict') is not None:
            def cfn(e=op['e']):
                v = ctx.ev(e)
                if v not in bc['value_dict']:
                    raise Reject('value not in numeric enumeration')
                return bc['value_dict'][v]
            code = (bc['size'], cfn)
        if ac is not None and ac.get('value_dict') is not None:
            n, al, en = argspec()

            def afn(e=op['e']):
                v = ctx.ev(e)
                if v not in ac['value_dict']:
                    raise Reject('value not in numeric enumeration')
                return ac['value_dict'][v]
            arg = (n, al, en, afn)
    elif kind == 'enumeration':
        key = op['key'] if op['k'] == 'enum' else str(op['e'][1])
        code = None
        if bc is not None and bc.get('value_dict') is not None and key in bc['value_dict']:
            code = (bc['size'], (lambda: bc['value_dict'][key]))
        n, al, en = argspec()
        arg = (n, al, en, (lambda: alt['argument']['value_dict'][key]))
    elif kind == 'indirect_register':
        if 'offset' in alt:
            o = alt['offset']

            def fn():
                if op.get('off') is None:
                    return 0
                v = ctx.ev(op['off'])
                return -v if op.get('sign') == '-' else v
            arg = (o['size'], bool(o['byte_align']), o.get('endian', isa.endian), fn)
    elif kind in ('indexed_register', 'indirect_indexed_register'):
        if code is None:
            raise Unspecified('indexed register operand without its own code')
        ia_sel = [(i, a) for i, a in alt['index_operands'].items() if alt_accepts(a, op['idx'], isa)]
        best = min(alt_class(a['type']) for _, a in ia_sel)
        ia_sel = [c for c in ia_sel if alt_class(c[1]['type']) == best]
        if len(ia_sel) > 1:
            raise Unspecified('ambiguous index operand')
        icode, _, iarg = operand_fields(ia_sel[0][0], ia_sel[0][1], op['idx'], ctx)
        if icode is not None:
            rsz, rfn = code
            isz, ifn = icode

            def cfn():
                iv = ifn()
                if not fits(iv, isz):
                    raise Reject('index code does not fit')
                return (rfn() << isz) | (iv % (1 << isz))
            code = (rsz + isz, cfn)
        arg = iarg
    else:
        raise ValueError(kind)
    return code, pos, arg


def ordered_fields(variant: dict, matched, rev_args: bool, rev_codes: bool, ctx: Ctx, default_endian: str):
    """-> list of (nbits, align, endian, valfn) in emission order."""
    bc = variant['bytecode']
    iend = bc.get('endian', default_endian)
    prefix, suffix, args = [], [], []
    for aid, alt, op in matched:
        code, pos, arg = operand_fields(aid, alt, op, ctx)
        if code is not None:
            f = (code[0], False, 'big', code[1])
            if pos == 'prefix':
                prefix.insert(0, f)      # pinned: with several prefix codes the last operand's comes first
            else:
                suffix.append(f)
        if arg is not None:
            args.append(arg)
    if rev_codes:
        prefix.reverse()
        suffix.reverse()
    if rev_args:
        args.reverse()
    out = prefix + [(bc['size'], False, iend, (lambda: bc['value']))] + suffix
    if 'suffix' in bc:
        out.append((bc['suffix']['size'], False, iend, (lambda: bc['suffix']['value'])))
    return out + args


def encode_matched(variant, matched, rev_args, rev_codes, ctx: Ctx, default_endian: str) -> bytes:
    fl = ordered_fields(variant, matched, rev_args, rev_codes, ctx, default_endian)
    ctx.size = size_of([(0, n, al, en) for n, al, en, _ in fl])
    fields = []
    for n, al, en, fn in fl:
        v = fn()
        if not fits(v, n):
            raise Reject(f'value {v} does not fit {n} bits')
        fields.append((v, n, al, en))
    return pack(fields)


def select_statement(isa: Isa, mnemonic: str, ops: list):
    if mnemonic not in isa.instructions:
        raise Reject('unknown mnemonic')
    return select_variant(isa.variants(mnemonic), ops, isa)


def instruction_size(isa: Isa, mnemonic: str, ops: list) -> int:
    """Static: depends on the configuration and operand shapes only."""
    _, variant, (matched, ra, rc) = select_statement(isa, mnemonic, ops)
    ctx = Ctx(isa, None, 0, isa.zones)
    fl = ordered_fields(variant, matched, ra, rc, ctx, isa.endian)
    return size_of([(0, n, al, en) for n, al, en, _ in fl])


def encode_instruction(isa: Isa, mnemonic: str, ops: list, resolve, address: int, zones=None) -> bytes:
    _, variant, (matched, ra, rc) = select_statement(isa, mnemonic, ops)
    ctx = Ctx(isa, resolve, address, zones if zones is not None else isa.zones)
    return encode_matched(variant, matched, ra, rc, ctx, isa.endian)


def selected_variant_index(isa: Isa, mnemonic: str, ops: list) -> int:
    return select_statement(isa, mnemonic, ops)[0]


# ------------------------------------------------------------------------------------------------
# two-pass layout of structured programs
#
# Items (dicts, 't' = type):
#   label name | const name e | instr mn ops | data w vals | str d chars q | fill n v | zero n | zerountil a
#   org e zone? | align e? | memzone zone | createzone name start end | define name value?
#   if lhs op? rhs? | ifdef name | ifndef name | elif lhs op? rhs? | else | endif | mute | unmute
#   include file items | comment | blank

WIDTH = {'.byte': 1, '.2byte': 2, '.4byte': 4, '.8byte': 8}
CMP = {'==': lambda a, b: a == b, '!=': lambda a, b: a != b, '>': lambda a, b: a > b,
       '>=': lambda a, b: a >= b, '<': lambda a, b: a < b, '<=': lambda a, b: a <= b}


def valid_label_name(name: str) -> bool:
    import re
    return re.match(r'^(?!__|\.\.)(?:[._a-zA-Z][a-zA-Z0-9_]*)$', name) is not None


class Layouter:
    """Feed items in source order (pass 1), then finish() (pass 2)."""

    def __init__(self, isa: Isa, cli_symbols=(), main_file='main.asm'):
        self.isa = isa
        self.zones = {}
        top = (1 << isa.address_size) - 1
        for name, (s, e) in isa.zones.items():
            if e > top or s > e:
                raise Reject('invalid predefined zone')
            self.zones[name] = [s, e, s]
        g = self.zones['GLOBAL']
        if isa.origin < g[0]:
            raise Reject('origin below GLOBAL')
        if isa.origin > g[1] + 1:
            raise Reject('origin beyond GLOBAL')
        g[2] = isa.origin
        self.globals = {}
        for n, v in isa.constants.items():
            self._define_global(n, v)
        self.blocks = []
        for b in isa.data_blocks:
            self._define_global(b['name'], b['address'])
            self.blocks.append({'addr': b['address'], 'size': b['size'],
                                'bytes': bytes([b['value'] & 0xFF]) * b['size'], 'muted': False, 'kind': 'predefined',
                                'zone': 'GLOBAL', 'file': None})
        self.files = {}            # file id -> {'labels': {}}
        self.locals = {}           # (file id, region) -> {}
        self.symbols = {}
        for n, v in isa.symbols:
            self._define_symbol(n, v)
        for n, v in cli_symbols:
            self._define_symbol(n, v)
        self.lines = []
        self.fstack = []
        self.conds = []            # frames: {'parent': bool, 'taken': bool, 'active': bool, 'else': bool}
        self.mute = 0
        self.nregion = 0
        self.included = set()
        self.sym_version = dict(self.symbols)
        self.enter_file(main_file)

    # -- files -------------------------------------------------------------------------------------
    def enter_file(self, fname):
        if fname in self.included:
            raise Reject('file included more than once')
        self.included.add(fname)
        self.files.setdefault(fname, {'labels': {}})
        self.fstack.append({'file': fname, 'zone': 'GLOBAL', 'region': None})

    def leave_file(self):
        self.fstack.pop()

    @property
    def cur(self):
        return self.fstack[-1]

    @property
    def active(self):
        return all(f['active'] for f in self.conds)

    def cursor(self, zone=None):
        return self.zones[zone or self.cur['zone']][2]

    # -- names -------------------------------------------------------------------------------------
    def _check_name(self, name):
        base = name.lstrip('._') if name[:1] in '._' else name
        if name.startswith('.') or name.startswith('_'):
            base = name[1:]
        if base in KEYWORDS:
            raise Reject('label is an assembler keyword')
        if name in self.isa.registers:
            raise Reject('label is a register name')
        if not valid_label_name(name):
            raise Unspecified('invalid label spelling')

    def _define_global(self, name, value):
        if name in self.globals:
            raise Reject('duplicate global name')
        self.globals[name] = value

    def _define_symbol(self, name, value):
        if name in self.symbols:
            raise Reject('symbol defined twice')
        self.symbols[name] = '' if value is None else str(value)

    def define_label(self, name, value, scope):
        self._check_name(name)
        fid, region = scope
        if name.startswith('.'):
            if region is None:
                raise Reject('local label with no enclosing non-local label')
            table = self.locals.setdefault((fid, region), {})
        elif name.startswith('_'):
            table = self.files[fid]['labels']
        else:
            table = self.globals
        if name in table:
            raise Reject('name defined twice in one scope')
        table[name] = value

    def lookup(self, name, scope):
        fid, region = scope
        if name.startswith('.'):
            t = self.locals.get((fid, region), {}) if region is not None else {}
        elif name.startswith('_'):
            t = self.files[fid]['labels']
        else:
            if name.lower() in [r.lower() for r in self.isa.registers]:
                raise Reject('register used as a number')       # in any letter case
            t = self.globals
        if name in t:
            return t[name]
        return None

    def resolver(self, scope, syms, strict):
        def resolve(name):
            if name in syms:
                return self._symbol_value(name, syms)
            v = self.lookup(name, scope)
            if v is None:
                if strict:
                    raise Reject('unresolved name ' + name)
                raise Unspecified('name used before it is bound in the first pass: ' + name)
            return v
        return resolve

    def _symbol_value(self, name, syms, depth=0):
        if depth > 20:
            raise Reject('symbol cycle')
        txt = syms[name].strip()
        try:
            if txt.startswith('$'):
                return int(txt[1:], 16)
            if txt.startswith('0x'):
                return int(txt[2:], 16)
            if txt.startswith('%'):
                return int(txt[1:], 2)
            return int(txt)
        except ValueError:
            if txt in syms:
                return self._symbol_value(txt, syms, depth + 1)
            raise Unspecified('symbol with a non-numeric replacement used as a number')

    # -- pass 1 ------------------------------------------------------------------------------------
    def feed(self, item):
        t = item['t']
        if t in ('comment', 'blank'):
            return
        if t in ('if', 'ifdef', 'ifndef'):
            parent = self.active
            cond = self._cond(item) if parent else False
            self.conds.append({'parent': parent, 'taken': cond, 'active': parent and cond, 'else': False})
            return
        if t == 'elif':
            if not self.conds:
                raise Reject('#elif without opener')
            f = self.conds[-1]
            if f['else']:
                raise Unspecified('#elif after #else')
            if f['parent'] and not f['taken']:
                c = self._cond(item)
                f['active'] = c
                f['taken'] = c
            else:
                f['active'] = False
            return
        if t == 'else':
            if not self.conds:
                raise Reject('#else without opener')
            f = self.conds[-1]
            if f['else']:
                raise Unspecified('second #else')
            f['else'] = True
            f['active'] = f['parent'] and not f['taken']
            f['taken'] = True
            return
        if t == 'endif':
            if not self.conds:
                raise Reject('#endif without opener')
            self.conds.pop()
            return
        if not self.active:
            return
        if t == 'require':
            # (only reached in a compiled branch) 'met' is decided by whoever wrote the item against the ISA identifier
            if not item['met']:
                raise Reject('unmet language requirement')
            return
        if t == 'mute':
            self.mute += 1
            return
        if t == 'unmute':
            if self.mute > 0:
                self.mute -= 1
            return
        if t == 'define':
            self._define_symbol(item['name'], item.get('value'))
            self.sym_version = dict(self.symbols)
            return
        if t == 'createzone':
            top = (1 << self.isa.address_size) - 1
            g = self.zones['GLOBAL']
            if item['name'] in self.zones:
                raise Reject('zone name reused')
            if item['start'] < g[0] or item['end'] > g[1]:
                raise Reject('zone not contained in GLOBAL')
            if item['end'] > top or item['start'] > item['end']:
                raise Reject('zone inverted or beyond the address width')
            self.zones[item['name']] = [item['start'], item['end'], item['start']]
            return
        if t == 'include':
            self.enter_file(item['file'])
            for sub in item['items']:
                self.feed(sub)
            self.leave_file()
            return
        cur = self.cur
        fid = cur['file']
        syms = self.sym_version
        if t == 'label':
            name = item['name']
            if not name.startswith('.'):
                self.nregion += 1
                cur['region'] = self.nregion
            scope = (fid, cur['region'])
            addr = self.cursor()
            self._advance(cur['zone'], addr, 0)
            self.define_label(name, addr, scope)
            self._line(item, addr, 0, scope, syms)
            return
        scope = (fid, cur['region'])
        if t == 'const':
            r = self._const_resolver(scope, syms)
            v = eval_ast(item['e'], r)
            self.define_label(item['name'], v, scope)
            self._line(item, self.cursor(), 0, scope, syms)
            return
        if t in ('org', 'memzone'):
            zname = item.get('zone') or 'GLOBAL'
            if zname not in self.zones:
                raise Reject('unknown memory zone')
            cur['region'] = None
            scope = (fid, None)
            z = self.zones[zname]
            if t == 'org':
                v = eval_ast(item['e'], self.resolver(scope, syms, strict=False))
                addr = v if item.get('zone') is None else z[0] + v
                g = self.zones['GLOBAL']
                if not (z[0] <= addr <= z[1] and g[0] <= addr <= g[1]):
                    # decided only by what follows: a byte placed from here lies outside the zone (rejected); if none
                    # is placed, nothing says whether the origin alone is an error
                    self.pending_outside = zname
                    z[2] = addr
                    cur['zone'] = zname
                    return
                z[2] = addr
            cur['zone'] = zname
            self._line(item, z[2], 0, scope, syms)
            return
        zone = cur['zone']
        addr = self.cursor()
        if t == 'align':
            p = self.isa.page_size if item.get('e') is None else \
                eval_ast(item['e'], self.resolver(scope, syms, strict=False))
            if p <= 0:
                raise Unspecified('non-positive page size')
            addr = -(-addr // p) * p
            self._advance(zone, addr, 0)
            self._line(item, addr, 0, scope, syms)
            return
        if t == 'instr':
            size = instruction_size(self.isa, item['mn'], item['ops'])
        elif t == 'data':
            size = WIDTH[item['d']] * len(item['vals'])
            if not item['vals']:
                raise Unspecified('empty data list')
        elif t == 'str':
            size = len(item['chars']) + (1 if item['d'] in ('.cstr', '.asciiz', 'bare') else 0)
            if item['d'] == 'bare' and not self.isa.embedded_strings:
                raise Reject('embedded strings are not enabled')
        elif t in ('fill', 'zero'):
            size = eval_ast(item['n'], self.resolver(scope, syms, strict=False))
            if size < 0:
                raise Unspecified('negative fill count')
        elif t == 'zerountil':
            a = eval_ast(item['a'], self.resolver(scope, syms, strict=False))
            size = a - addr + 1 if a >= addr else 0
        else:
            raise ValueError(t)
        self._advance(zone, addr, size)
        self._line(item, addr, size, scope, syms, has_bytes=True)

    def _const_resolver(self, scope, syms):
        def resolve(name):
            if name in syms:
                return self._symbol_value(name, syms)
            v = self.lookup(name, scope)
            if v is None:
                raise Unspecified('constant refers to a name that is not an earlier constant')
            return v
        return resolve

    def _advance(self, zone, addr, size):
        if getattr(self, 'pending_outside', None) is not None:
            if zone == self.pending_outside and size > 0:
                raise Reject('byte placed outside its memory zone')
            raise Unspecified('origin outside its zone')
        z = self.zones[zone]
        new = addr + size
        if new < z[0] or new > z[1] + 1:
            raise Reject('outside its memory zone')
        g = self.zones['GLOBAL']
        if size > 0 and (addr < g[0] or new - 1 > g[1]):
            raise Reject('outside GLOBAL')
        z[2] = new

    def _line(self, item, addr, size, scope, syms, has_bytes=False):
        self.lines.append({'item': item, 'addr': addr, 'size': size, 'scope': scope, 'syms': syms,
                           'zone': self.cur['zone'], 'file': self.cur['file'], 'muted': self.mute > 0,
                           'has_bytes': has_bytes, 'bytes': None, 'kind': item['t']})

    def _cond(self, item):
        t = item['t']
        if t in ('ifdef', 'ifndef'):
            d = item['name'] in self.symbols
            return d if t == 'ifdef' else not d
        syms = self.symbols

        def resolve(name):
            if name in syms:
                return self._symbol_value(name, syms)
            raise Unspecified('condition mentions an undefined symbol')
        lhs = eval_ast(item['lhs'], resolve)
        if item.get('op') is None:
            return lhs != 0
        rhs = eval_ast(item['rhs'], resolve)
        return CMP[item['op']](lhs, rhs)

    # -- pass 2 ------------------------------------------------------------------------------------
    def finish(self):
        if getattr(self, 'pending_outside', None) is not None:
            raise Unspecified('origin outside its zone')
        if self.conds:
            raise Unspecified('unterminated conditional block')
        zones = {k: (v[0], v[1]) for k, v in self.zones.items()}
        for ln in self.lines:
            if not ln['has_bytes']:
                continue
            it = ln['item']
            t = it['t']
            resolve = self.resolver(ln['scope'], ln['syms'], strict=True)
            if t == 'instr':
                b = encode_instruction(self.isa, it['mn'], it['ops'], resolve, ln['addr'], zones)
            elif t == 'data':
                w = WIDTH[it['d']]
                b = b''
                for e in it['vals']:
                    v = eval_ast(e, resolve)
                    b += (v % (1 << (8 * w))).to_bytes(w, self.isa.endian)
            elif t == 'str':
                b = bytes(c if isinstance(c, int) else c[1] for c in it['chars'])
                if it['d'] in ('.cstr', '.asciiz', 'bare'):
                    b += bytes([self.isa.cstr_terminator])
            elif t == 'fill':
                b = bytes([eval_ast(it['v'], resolve) & 0xFF]) * ln['size']
            else:
                b = bytes(ln['size'])
            if len(b) != ln['size']:
                raise Reject('emitted size differs from reserved size')
            ln['bytes'] = b
        occupying = [ln for ln in self.lines if ln['has_bytes'] and ln['size'] > 0] + \
                    [b for b in self.blocks if b['size'] > 0]
        occupying.sort(key=lambda x: x['addr'])
        for a, b in zip(occupying, occupying[1:]):
            if a['addr'] + a['size'] > b['addr']:
                # (a muted line keeps its addresses: it is a byte-producing line like any other, only absent from the image)
                raise Reject('two lines occupy a common address')
        mem = {}
        for ln in occupying:
            if ln['muted']:
                continue
            for i, byte in enumerate(ln['bytes']):
                mem[ln['addr'] + i] = byte
        self.memory = mem
        return mem

    def image(self, start=0, end=None, fill=0):
        mem = self.memory
        if end is None:
            if not mem:
                raise Unspecified('no emitted byte and no explicit end')
            end = max(mem)
            if start > end:
                raise Unspecified('window start beyond the last emitted byte without an explicit end')
        if end < start:
            raise Unspecified('inverted window')
        if end - start > (1 << 17):
            raise Unspecified('image window larger than 128 KiB (harness bound)')
        return bytes(mem.get(a, fill & 0xFF) for a in range(start, end + 1))


def layout_program(isa: Isa, items, cli_symbols=(), main_file='main.asm'):
    """-> ('accepted', Layouter) | ('rejected', reason).  Unspecified propagates."""
    try:
        lay = Layouter(isa, cli_symbols, main_file)
        for it in items:
            lay.feed(it)
        lay.finish()
        return 'accepted', lay
    except Reject as r:
        return 'rejected', r.why

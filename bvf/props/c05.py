"""C05 - memory zones confine and sequence the code assigned to them."""
from __future__ import annotations

from hypothesis import strategies as st

from .. import exprs, isagen, proggen as G, refmodel as R, runner
from ..driver import Finding, Outcome
from .c02 import run_layout_case

ID = 'C05'
LEVEL = 'exploration'
TECHNIQUE = ('property-based testing (Hypothesis): generated zone layouts (predefined, redefined GLOBAL, '
             '#create_memzone; nested/overlapping/adjacent) x programs switching zones via .memzone, zone-relative and '
             'bare .org, includes, fills ending at / one past a zone end, plus single-fault zone declarations; exit '
             'status and image compared with the reference layout model')
RULE = ('Zone layouts and programs are generated together (the generator reads the reference cursors so that fills end '
        'exactly at or one byte past a zone end). Non-trivial = at least two zones used and one of: two disjoint '
        'stretches of one zone, a fill ending at end / end+1, a zone-relative origin, an include while a non-GLOBAL '
        'zone is selected; every fault-injected zone declaration is non-trivial. Distinct = SHA-1 of the case JSON.')
ASSUMPTIONS = [
    'an origin outside its named zone is decided only by what follows it: a byte placed from there must be rejected; '
    'with no byte placed the origin alone is not decided by the property',
    'includes are not placed inside conditionally excluded regions (that interaction is C08/C17)',
    'zones predefined in the configuration lie inside GLOBAL in the general programs; a directed family places one above, below or across the end of a redefined GLOBAL and asks only that no byte is assembled outside GLOBAL',
]
BUDGET = {'quick': 3200, 'thorough': 200000}
LEVEL_TEXT = ('Exploration over generated zone layouts and whole programs; containment, concatenation of stretches, '
              'relative origins and include behaviour are run-level facts that need the real engine and an '
              'independent cursor model.')
LEVEL_NOTE = 'Trusted: bvf/refmodel.py Layouter zone cursors and bounds.'

FAULTS = ['below-global', 'above-global', 'duplicate-predefined', 'duplicate-created', 'inverted', 'beyond-width',
          'name-is-GLOBAL']


@st.composite
def _cases(draw, tier):
    cfg = draw(G.layout_isa(zones=True, redefine_global=True, blocks=True,
                            address_sizes=(8, 12, 16, 16, 16, 24, 32)))
    if draw(st.integers(0, 9)) == 0:
        # a zone predefined by the configuration that lies (partly) outside a redefined GLOBAL zone: the configuration is
        # what it is, but a byte placed outside GLOBAL is refused like anywhere else
        asz = draw(st.sampled_from([12, 16, 16]))
        top = (1 << asz) - 1
        glo = draw(st.sampled_from([0, 0x10, 0x100]))
        ghi = draw(st.integers(glo + 0x40, top - 0x40))
        where = draw(st.sampled_from(['above', 'above', 'straddling-the-end', 'below'] if glo else ['above', 'above', 'straddling-the-end']))
        if where == 'above':
            zs = draw(st.integers(ghi + 1, top - 8))
            ze = draw(st.integers(zs + 4, min(top, zs + 0x30)))
        elif where == 'below':
            zs = draw(st.integers(0, glo - 4))
            ze = draw(st.integers(zs + 2, glo - 1))
        else:
            zs = draw(st.integers(max(glo, ghi - 6), ghi))
            ze = min(top, ghi + draw(st.integers(1, 9)))
        off = draw(st.integers(0, ze - zs))
        n = draw(st.integers(1, min(3, ze - zs - off + 1)))
        how = draw(st.sampled_from(['memzone-then-fill', 'zone-relative-origin', 'memzone-then-fill', 'create-zone-inside-it']))
        return {'kind': 'predefined-zone-outside-global', 'asz': asz, 'global': [glo, ghi], 'zone': [zs, ze], 'where': where,
                'offset': off, 'count': n, 'how': how, 'endian': draw(st.sampled_from(['big', 'little']))}
    if draw(st.integers(0, 5)) == 0:
        return draw(_fault_case(cfg))
    b, feats = G.general_program(draw, cfg, max_steps=28,
                                 extra=['createzone', 'createzone', 'zone-edge-fill', 'zone-edge-fill', 'zone-edge-fill', 'orgzone-outside',
                                        'include', 'include', 'memzone', 'memzone', 'orgzone', 'orgzone'])
    return {'isa': cfg, 'items': b.items, 'lo': b.lo, 'fill': draw(st.sampled_from([0, 0xEE])), 'feats': sorted(feats)}


@st.composite
def _fault_case(draw, cfg):
    isa = R.Isa(cfg)
    glo, ghi = isa.zones['GLOBAL']
    top = (1 << isa.address_size) - 1
    lo, hi = G.window_of(isa)
    fault = draw(st.sampled_from(FAULTS))
    items = []
    s0 = draw(st.integers(lo, hi))
    e0 = draw(st.integers(s0, hi))
    items.append({'t': 'createzone', 'name': 'ZOK', 'start': s0, 'end': e0})
    name, s, e = 'ZBAD', s0, e0
    if fault == 'below-global':
        if glo == 0:
            fault = 'inverted'
        else:
            s = glo - draw(st.integers(1, min(glo, 9)))
    if fault == 'above-global':
        if ghi == top:
            fault = 'beyond-width'
        else:
            e = ghi + draw(st.integers(1, min(top - ghi, 9)))
    if fault == 'beyond-width':
        e = top + draw(st.integers(1, 300))
    if fault == 'inverted':
        if s0 == e0:
            e0 = s0 + 1
        s, e = max(s0, e0), min(s0, e0)
        if s == e:
            s += 1
    if fault == 'duplicate-created':
        name = 'ZOK'
    if fault == 'duplicate-predefined':
        pre = [z for z in isa.zones if z != 'GLOBAL']
        name = draw(st.sampled_from(pre)) if pre else 'ZOK'
    if fault == 'name-is-GLOBAL':
        name = 'GLOBAL'
    bad = {'t': 'createzone', 'name': name, 'start': s, 'end': e}
    pos = draw(st.integers(0, 1))
    items.insert(pos if name != 'ZOK' else 1, bad)
    items.append({'t': 'instr', 'mn': 'nop', 'ops': []})
    return {'isa': cfg, 'items': items, 'lo': lo, 'fill': 0, 'feats': ['fault:' + fault]}


def strategy(tier):
    return _cases(tier)


def zone_usage(lay):
    stretches = {}
    prev = None
    for ln in lay.lines:
        if ln['has_bytes'] and ln['size'] > 0:
            z = ln['zone']
            if z != prev:
                stretches[z] = stretches.get(z, 0) + 1
            prev = z
    return stretches


def _execute_outside(case):
    glo, ghi = case['global']
    zs, ze = case['zone']
    cfg = {'general': {'address_size': case['asz'], 'endian': case['endian'], 'registers': ['a'], 'origin': glo},
           'predefined': {'memory_zones': [{'name': 'GLOBAL', 'start': glo, 'end': ghi}, {'name': 'io', 'start': zs, 'end': ze}]},
           'operand_sets': {'imm': {'operand_values': {'i': {'type': 'numeric', 'argument': {'size': 8, 'byte_align': True}}}}},
           'instructions': {'nop': {'bytecode': {'value': 0xEA, 'size': 8}}}}
    off, n = case['offset'], case['count']
    if case['how'] == 'create-zone-inside-it':
        # a zone declared in source inside the predefined one: it must be contained in GLOBAL like any source zone
        src = f'#create_memzone ports {zs + off} {zs + off + n - 1}\n.byte 1\n.memzone ports\n.fill {n}, $55\n'
    elif case['how'] == 'zone-relative-origin':
        src = f'.byte 1\n.org {off} "io"\n.fill {n}, $55\n'
    else:
        src = '.byte 1\n.memzone io\n' + (f'.zero {off}\n' if off else '') + f'.fill {n}, $55\n'
        # (the zeros in front are bytes too)
    first = zs + (off if case['how'] in ('zone-relative-origin', 'create-zone-inside-it') else 0)
    last = zs + off + n - 1
    outside = first < glo or last > ghi
    fname, text = isagen.dump_isa(cfg, 'yaml')
    lo, hi = min(glo, zs), max(glo, last)
    argv = ['compile', '-c', fname, '-o', 'out.bin', '-s', str(lo), '-e', str(hi), '-f', '238', 'main.asm']
    res = runner.run_forked(argv, {fname: text, 'main.asm': src})
    detail = {'source': src, 'predefined': cfg['predefined'], 'argv': argv, 'bytes_from': first, 'bytes_to': last,
              'expected': 'rejected: a byte outside the GLOBAL zone' if outside else 'accepted', 'run': res.brief()}
    findings = []
    if res.klass == 'timeout':
        findings.append(Finding('C05/timeout', detail))
    elif outside and res.klass == 'accepted':
        findings.append(Finding('C05/invalid-program-accepted/byte-outside-GLOBAL-in-a-predefined-zone', detail))
    elif not outside and res.klass != 'accepted':
        findings.append(Finding('C05/valid-program-rejected', detail))
    elif not outside:
        want = bytearray([238] * (hi - lo + 1))
        want[glo - lo] = 1
        for a in range(first, last + 1):
            want[a - lo] = 0 if a < zs + off else 0x55
        if res.outputs.get('out.bin') != bytes(want):
            detail['expected_image'] = bytes(want).hex()
            findings.append(Finding('C05/wrong-image/zones', detail))
    return Outcome(findings, True, ['kind:predefined-zone-outside-global', 'where:' + case['where'], 'how:' + case['how'],
                                    'expected:' + ('rejected' if outside else 'accepted'), 'outcome:' + res.klass], 1,
                   sample={'source': src, 'predefined': cfg['predefined'], 'expected': detail['expected']})


def execute(case, ctx):
    if case.get('kind') == 'predefined-zone-outside-global':
        return _execute_outside(case)
    try:
        cfg, isa, fname, files, verdict, lay = run_layout_case(ID, case)
        if verdict == 'accepted':
            if not lay.memory:
                return Outcome(classes=['no-bytes'], evals=0)
            lo, hi = min(lay.memory), max(lay.memory)
            want = lay.image(lo, hi, case['fill'])
        else:
            lo, hi, want = case['lo'], case['lo'] + 8, None
    except R.Unspecified as u:
        return Outcome(classes=['unspecified:' + str(u).split(':')[0]], evals=0, excluded=['unspecified: ' + str(u).split(':')[0]])
    argv = ['compile', '-c', fname, '-o', 'out.bin', '-s', str(lo), '-e', str(hi), '-f', str(case['fill']), 'main.asm']
    res = runner.run_forked(argv, files)
    feats = set(case['feats'])
    detail = {'sources': {k: v for k, v in files.items() if k.endswith('.asm')}, 'general': cfg['general'],
              'predefined': cfg.get('predefined'), 'argv': argv, 'features': sorted(feats),
              'model': verdict if verdict == 'accepted' else 'rejected: ' + lay, 'run': res.brief(),
              'model_lines': [(ln['zone'], ln['addr'], ln['size'], G.render_item(ln['item'])) for ln in lay.lines][:60]
              if verdict == 'accepted' else None}
    findings = []
    fault = [f for f in feats if f.startswith('fault:')]
    if res.klass == 'timeout':
        findings.append(Finding('C05/timeout', detail))
    elif verdict == 'accepted' and res.klass != 'accepted':
        findings.append(Finding('C05/valid-program-rejected', detail))
    elif verdict != 'accepted' and res.klass == 'accepted':
        why = fault[0] if fault else lay.replace(' ', '-')
        findings.append(Finding('C05/invalid-program-accepted/' + why, detail))
    elif verdict == 'accepted':
        detail['expected_image'] = want.hex() if len(want) < 600 else f'<{len(want)} bytes>'
        if res.outputs.get('out.bin') != want:
            tag = 'include' if 'include' in feats else 'createzone' if 'createzone' in feats else 'zones'
            findings.append(Finding('C05/wrong-image/' + tag, detail))
    nt = bool(fault)
    if verdict == 'accepted':
        st_ = zone_usage(lay)
        nt = len(st_) >= 2 and (any(v >= 2 for v in st_.values()) or bool(
            feats & {'fill-to-zone-end', 'include-while-zone-selected'}) or any(
            it['t'] == 'org' and it.get('zone') for it in G.flatten(case['items'])))
    elif 'fill-past-zone-end' in feats:
        nt = True
    classes = ['model:' + verdict, 'outcome:' + res.klass] + ['feat:' + f for f in sorted(feats)]
    if verdict != 'accepted':
        classes.append('reject-reason:' + lay)
    sample = {'sources': detail['sources'], 'predefined': cfg.get('predefined'), 'features': sorted(feats), 'model': detail['model']}
    return Outcome(findings, nt, classes, 1, sample=sample)

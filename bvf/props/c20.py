"""C20 - generated editor extensions are well-formed and mirror the ISA vocabulary."""
from __future__ import annotations

import copy
import io
import json
import plistlib
import re
import xml.dom.minidom
import zipfile

from hypothesis import strategies as st

from .. import isagen, refmodel as R, runner
from ..driver import Finding, Outcome

ID = 'C20'
LEVEL = 'exploration'
TECHNIQUE = ('property-based testing (Hypothesis) with validity predicates: for generated ISA vocabularies (dotted '
             'mnemonics, names that are prefixes of one another, registers resembling mnemonics, with/without macros, '
             'registers, predefined names) the real `generate-extension vscode|sublime` output is parsed (JSON, YAML, '
             'plist/XML, zip), searched for leftover placeholders, and its class patterns are evaluated on every '
             'vocabulary word and on generated near-miss identifiers')
RULE = ('Accepted ISA definitions from the broad generator plus 0..3 macros and optional predefined constants. For both '
        'editors every generated file is parsed by format; no ##PLACEHOLDER## may remain; the instruction / macro / '
        'register / directive / data-type / preprocessor patterns are extracted and evaluated with Python re: every '
        'configured word must be matched as a whole token by its class pattern, in lower and upper case where the '
        'pattern is case-insensitive, and near-miss identifiers (a "." replaced by a letter, one word character '
        'appended / prepended / removed, unrelated identifiers) by none. Non-trivial = the vocabulary has a prefix '
        'pair or a name with a regex metacharacter, or an empty macro/register set. Distinct = SHA-1 of the case JSON.')
ASSUMPTIONS = [
    'the order of keyword alternatives inside the generated patterns follows Python set iteration and differs between '
    'processes; no listed property asks for byte-identical extension files, so the fork/subprocess faithfulness '
    'cross-check is not applied to this check',
    'TextMate/Sublime patterns are evaluated with Python re; the generated patterns only use (?i), \\b, groups, '
    'alternation and fixed-width look-behind, a subset on which Oniguruma and Python re agree (ordered alternation, '
    'leftmost match)',
    'near-miss identifiers are formed with word characters only, and are skipped when they are themselves in the class',
]
BUDGET = {'quick': 1500, 'thorough': 50000}
LEVEL_TEXT = ('Exploration over vocabularies with validity predicates: whether the patterns match exactly the vocabulary '
              'is a property of every vocabulary; names that are prefixes of one another and names with regex '
              'metacharacters are generated on purpose.')
LEVEL_NOTE = 'Trusted: Python json/yaml/plistlib/xml/zipfile parsers; Python re as the pattern evaluator.'

DIRECTIVES = ['org', 'memzone', 'align']
DATATYPES = ['fill', 'zero', 'zerountil', 'byte', '2byte', '4byte', '8byte', 'cstr', 'asciiz']
PREPROC = ['include', 'require', 'create_memzone', 'define', 'if', 'elif', 'else', 'endif', 'ifdef', 'ifndef', 'mute',
           'unmute', 'emit']
PLACEHOLDER = re.compile(r'##[A-Z_]+##')


@st.composite
def _cases(draw, tier):
    cfg = draw(isagen.full_isa(max_mnemonics=5, max_variants=1))
    # names whose first or last character is an underscore (a word character that is not alphanumeric)
    for extra in draw(st.lists(st.sampled_from(['or_', '_nx', 'r_', 'x_y']), max_size=2, unique=True)):
        cfg['instructions'][extra] = {'bytecode': {'value': 1, 'size': 8}}
    if draw(st.integers(0, 3)) == 0:
        cfg['general']['registers'] = list(cfg['general'].get('registers') or []) + ['_t', 'q_']
    if draw(st.booleans()):
        first = sorted(cfg['instructions'])[0]
        macros = {}
        for name in draw(st.lists(st.sampled_from(isagen.MACROS + ['ldy', 'mo', 'st.w']), min_size=1, max_size=3, unique=True)):
            if name not in cfg['instructions']:
                macros[name] = [{'instructions': [first] if 'operands' not in _first_variant(cfg, first) else []}]
        if macros:
            cfg['macros'] = macros
    if draw(st.booleans()):
        cfg.setdefault('predefined', {})['constants'] = [{'name': n, 'value': 1} for n in
                                                         draw(st.lists(st.sampled_from(isagen.CONSTS), min_size=1, max_size=3, unique=True))]
    if draw(st.integers(0, 4)) == 0:
        # a register spelled exactly like a mnemonic: the word belongs to both classes
        plain = [m for m in sorted(cfg['instructions']) if m.isidentifier()]
        if plain:
            cfg['general']['registers'] = list(cfg['general'].get('registers') or []) + [draw(st.sampled_from(plain))]
    if draw(st.integers(0, 5)) == 0:
        # a large vocabulary (more names than fit one group of whatever size the generator may use internally)
        want = draw(st.sampled_from([32, 33, 34, 64, 65, 66]))
        which = draw(st.sampled_from(['instructions', 'registers']))
        if which == 'instructions':
            i = 0
            while len(cfg['instructions']) < want:
                cfg['instructions']['op%02d' % i] = {'bytecode': {'value': i % 256, 'size': 8}}
                i += 1
        else:
            regs = list(cfg['general'].get('registers') or [])
            i = 0
            while len(regs) < want:
                regs.append('rr%02d' % i)
                i += 1
            cfg['general']['registers'] = regs
    if cfg.get('macros') and draw(st.integers(0, 4)) == 0:
        # one mnemonic configured twice, in two letter cases (the later entry is the one in force): still one mnemonic
        plain = [m for m in sorted(cfg['instructions']) if m.isidentifier() and m.lower() == m and m.upper() not in cfg['instructions']]
        if plain:
            m = draw(st.sampled_from(plain))
            cfg['instructions'][m.upper()] = copy.deepcopy(cfg['instructions'][m])
    return {'isa': cfg, 'salt': draw(st.integers(0, 1000)), 'regenerate': draw(st.integers(0, 2)) == 0,
            'verbose': draw(st.sampled_from([0, 0, 0, 1, 3]))}


def _first_variant(cfg, mn):
    ic = cfg['instructions'][mn]
    return ic if 'bytecode' in ic else ic['variants'][0]


def strategy(tier):
    return _cases(tier)


def near_misses(word, salt):
    out = set()
    letters = 'xqzk'
    c = letters[salt % len(letters)]
    if '.' in word:
        out.add(word.replace('.', c))
        out.add(word.replace('.', '_'))
    out.add(word + c)
    out.add(c + word)
    if len(word) > 1:
        out.add(word[:-1])
        out.add(word[1:])
    out.add(word + '_')
    out.add('zz' + c + 'q')
    return {w for w in out if w and re.fullmatch(r'[\w.]+', w)}


def whole_token(pattern, text, start, end):
    """Does the engine, scanning `text`, produce a match covering exactly [start, end)?"""
    for m in re.finditer(pattern, text):
        if m.start() <= start and m.end() >= end and (m.start(), m.end()) == (start, end):
            return True
        if m.start() > start:
            break
    return False


def touches(pattern, text, start, end):
    """Is any part of [start, end) matched when scanning `text`?"""
    for m in re.finditer(pattern, text):
        if m.end() > start and m.start() < end and m.end() > m.start():
            return True
    return False


def check_class(findings, detail, editor, klass, pattern, words, prefix='', ctx_before=' ', ctx_after=' '):
    try:
        rx = re.compile(pattern)
    except re.error as e:
        d = dict(detail, editor=editor, klass=klass, pattern=pattern, error=str(e))
        findings.append(Finding(f'C20/{editor}/{klass}-pattern-does-not-compile', d))
        return
    vocab = {w.lower() for w in words}
    insensitive = '(?i)' in pattern
    for w in sorted(words):
        forms = [w] + ([w.upper()] if insensitive and w.upper() != w else [])
        for form in forms:
            text = ctx_before + prefix + form + ctx_after
            s = len(ctx_before) + len(prefix)
            if not whole_token(rx, text, s, s + len(form)):
                d = dict(detail, editor=editor, klass=klass, pattern=pattern, word=form)
                kind = 'prefix-of-another-name' if any(v != w.lower() and (w.lower().startswith(v) or v.startswith(w.lower())) for v in vocab) \
                    else 'plain'
                findings.append(Finding(f'C20/{editor}/{klass}-word-not-classified-as-a-whole/{kind}', d))
                return
    for w in sorted(words):
        for nm in sorted(near_misses(w, detail['salt'])):
            if nm.lower() in vocab:
                continue
            text = ctx_before + prefix + nm + ctx_after
            s = len(ctx_before) + len(prefix)
            partial = re.fullmatch(r'\w+', nm) is not None and touches(rx, text, s, s + len(nm))
            if whole_token(rx, text, s, s + len(nm)) or partial:
                d = dict(detail, editor=editor, klass=klass, pattern=pattern, word=w, near_miss=nm)
                kind = 'regex-metacharacter-in-name' if re.escape(w) != w else 'plain'
                findings.append(Finding(f'C20/{editor}/{klass}-classifies-identifier-outside-vocabulary/{kind}', d))
                return


def check_end_pattern(findings, detail, editor, where, pattern, operations):
    """The look-ahead that ends an instruction's operand region must fire in front of every operation mnemonic
    (instructions and macros alike), otherwise the second operation on a line is classified as an operand."""
    try:
        rx = re.compile(pattern)
    except re.error as e:
        findings.append(Finding(f'C20/{editor}/{where}-pattern-does-not-compile', dict(detail, pattern=pattern, error=str(e))))
        return
    for w in sorted(operations):
        text = 'a, 5 ' + w + ' 7'
        idx = 5
        if not any(m.start() == idx for m in rx.finditer(text)):
            findings.append(Finding(f'C20/{editor}/operation-not-recognised-as-start-of-next-statement',
                                    dict(detail, where=where, pattern=pattern, word=w)))
            return


def execute(case, ctx):
    cfg = isagen.fix_int_keys(copy.deepcopy(case['isa']))
    isa = R.Isa(cfg)
    fname, text = isagen.dump_isa(cfg, 'yaml')
    mnemonics = sorted(isa.instructions)
    macros = sorted(isa.macros)
    registers = sorted(set(isa.registers))
    detail = {'mnemonics': mnemonics, 'macros': macros, 'registers': registers, 'salt': case['salt']}
    findings = []
    evals = 0
    # ---------------- VS Code
    vs_files = {fname: text}
    if case.get('regenerate'):
        # an extension generated earlier from another vocabulary (same name and version) already sits in the directory
        old_cfg = copy.deepcopy(cfg)
        old_cfg['instructions'] = {'oldop': {'bytecode': {'value': 1, 'size': 8}}}
        old_cfg['general']['registers'] = ['oldreg']
        old_cfg.pop('macros', None)
        if case['salt'] % 2 == 0:
            # ... or from nearly the same vocabulary: one mnemonic had another name of the same length, so that every
            # generated file has the size it had before
            old_cfg = copy.deepcopy(cfg)
            mn0 = sorted(cfg['instructions'])[case['salt'] // 2 % len(cfg['instructions'])]
            alias = mn0[:-1] + ('q' if mn0[-1].lower() != 'q' else 'z')
            taken = {w.lower() for w in list(cfg['instructions']) + list(cfg.get('macros') or {}) + list(cfg['general'].get('registers') or [])}
            if alias.lower() not in taken and alias.lower() not in {k.lower() for k in R.KEYWORDS}:
                old_cfg['instructions'] = {(alias if k == mn0 else k): v for k, v in cfg['instructions'].items()}
                for variants in (old_cfg.get('macros') or {}).values():
                    for v in variants:
                        v['instructions'] = [re.sub(r'^' + re.escape(mn0) + r'\b', alias, t) for t in v.get('instructions', [])]
        _, old_text = isagen.dump_isa(old_cfg, 'yaml')
        r0 = runner.run_forked(['generate-extension', 'vscode'] + ['-v'] * case.get('verbose', 0) + ['-c', fname, '-d', 'vs'], {fname: old_text}, crosscheck=False)
        evals += 1
        if r0.klass == 'accepted':
            vs_files.update(r0.outputs)
    r = runner.run_forked(['generate-extension', 'vscode'] + ['-v'] * case.get('verbose', 0) + ['-c', fname, '-d', 'vs'], vs_files, crosscheck=False)
    evals += 1
    if case.get('regenerate') and r.klass == 'accepted':
        # files that were not rewritten are still part of the generated package
        for k, v in vs_files.items():
            if k != fname and k not in r.outputs:
                r.outputs[k] = v if isinstance(v, bytes) else v.encode()
    if r.klass != 'accepted':
        findings.append(Finding('C20/vscode/generation-failed', dict(detail, run=r.brief())))
    else:
        files = {k: v for k, v in r.outputs.items()}
        gram = None
        for path, data in sorted(files.items()):
            if PLACEHOLDER.search(data.decode(errors='replace')):
                findings.append(Finding('C20/vscode/placeholder-left-in/' + path.split('/')[-1].split('.')[-1],
                                        dict(detail, file=path, placeholder=PLACEHOLDER.findall(data.decode(errors='replace'))[:3])))
            try:
                if path.endswith('.json'):
                    doc = json.loads(data)
                    if path.endswith('tmGrammar.json'):
                        gram = doc
                elif path.endswith('.tmTheme'):
                    plistlib.loads(data)
            except Exception as e:
                findings.append(Finding('C20/vscode/malformed-file/' + path.split('.')[-1], dict(detail, file=path, error=str(e)[:200])))
        if gram is not None:
            rep = gram['repository']
            check_class(findings, detail, 'vscode', 'instruction', rep['instructions']['begin'], mnemonics)
            check_end_pattern(findings, detail, 'vscode', 'instructions.end', rep['instructions']['end'], mnemonics + macros)
            if macros and 'macros' in rep:
                check_end_pattern(findings, detail, 'vscode', 'macros.end', rep['macros']['end'], mnemonics + macros)
            if macros:
                if 'macros' not in rep:
                    findings.append(Finding('C20/vscode/macro-pattern-missing', detail))
                else:
                    check_class(findings, detail, 'vscode', 'macro', rep['macros']['begin'], macros)
            if registers:
                if 'registers' not in rep:
                    findings.append(Finding('C20/vscode/register-pattern-missing', detail))
                else:
                    check_class(findings, detail, 'vscode', 'register', rep['registers']['match'], registers)
            for it in rep['directives']['patterns']:
                if it.get('name') == 'meta.directive':
                    check_class(findings, detail, 'vscode', 'directive', it['begin'], ['.' + d for d in DIRECTIVES])
                elif it.get('name') == 'storage.type':
                    check_class(findings, detail, 'vscode', 'datatype', it['match'], ['.' + d for d in DATATYPES])
                elif it.get('name') == 'meta.preprocessor':
                    for p in it['patterns']:
                        if p.get('name') == 'keyword.control.preprocessor':
                            check_class(findings, detail, 'vscode', 'preprocessor', p['match'], PREPROC, prefix='#', ctx_before='')
    # ---------------- Sublime
    sb_files = {fname: text}
    if case.get('regenerate'):
        # a package generated earlier from another vocabulary (same name and version) already sits in the directory
        r0 = runner.run_forked(['generate-extension', 'sublime'] + ['-v'] * case.get('verbose', 0) + ['-c', fname, '-d', '.'], {fname: old_text}, crosscheck=False)
        evals += 1
        if r0.klass == 'accepted':
            sb_files.update({k: v for k, v in r0.outputs.items() if k.endswith('.sublime-package')})
    r = runner.run_forked(['generate-extension', 'sublime'] + ['-v'] * case.get('verbose', 0) + ['-c', fname, '-d', '.'], sb_files, crosscheck=False)
    evals += 1
    pk = [k for k in r.outputs if k.endswith('.sublime-package')]
    if r.klass != 'accepted' or not pk:
        findings.append(Finding('C20/sublime/generation-failed', dict(detail, run=r.brief())))
    else:
        try:
            z = zipfile.ZipFile(io.BytesIO(r.outputs[pk[0]]))
            bad = z.testzip()
            if bad:
                raise zipfile.BadZipFile(bad)
            names = z.namelist()
            if len(set(names)) != len(names):
                raise zipfile.BadZipFile('member stored more than once: ' + ', '.join(sorted(n for n in set(names) if names.count(n) > 1))[:120])
        except Exception as e:
            findings.append(Finding('C20/sublime/malformed-package', dict(detail, error=str(e)[:200])))
            names = []
        syn = None
        for n in names:
            data = z.read(n)
            if PLACEHOLDER.search(data.decode(errors='replace')):
                findings.append(Finding('C20/sublime/placeholder-left-in/' + n.split('.')[-1],
                                        dict(detail, file=n, placeholder=PLACEHOLDER.findall(data.decode(errors='replace'))[:3])))
            try:
                if n.endswith(('.sublime-color-scheme', '.sublime-keymap', '.sublime-macro')):
                    json.loads(data)
                elif n.endswith('.sublime-syntax'):
                    import yaml
                    syn = yaml.safe_load(data)
                elif n.endswith('.tmPreferences'):
                    plistlib.loads(data)
                elif n.endswith('.sublime-snippet'):
                    xml.dom.minidom.parseString(data)
            except Exception as e:
                findings.append(Finding('C20/sublime/malformed-file/' + n.split('.')[-1], dict(detail, file=n, error=str(e)[:200])))
        if syn is not None:
            c = syn['contexts']
            got_macro = False
            for it in c['instructions']:
                if it.get('scope') == 'variable.function.instruction':
                    check_class(findings, detail, 'sublime', 'instruction', it['match'], mnemonics)
                elif it.get('scope') == 'variable.function.macro':
                    got_macro = True
                    if macros:
                        check_class(findings, detail, 'sublime', 'macro', it['match'], macros)
            if macros and not got_macro:
                findings.append(Finding('C20/sublime/macro-pattern-missing', detail))
            for rule in c.get('pop_instruction_end', []):
                if rule.get('name') == 'instructions':
                    check_end_pattern(findings, detail, 'sublime', 'pop_instruction_end', rule['match'], mnemonics + macros)
            if registers:
                if 'registers' not in c:
                    findings.append(Finding('C20/sublime/register-pattern-missing', detail))
                else:
                    check_class(findings, detail, 'sublime', 'register', c['registers'][0]['match'], registers)
            check_class(findings, detail, 'sublime', 'directive', c['compiler_directives'][0]['match'], ['.' + d for d in DIRECTIVES])
            check_class(findings, detail, 'sublime', 'datatype', c['data_types_directives'][0]['match'], ['.' + d for d in DATATYPES])
            for rule in c['preprocessor_directives'][0]['push']:
                if rule.get('scope') == 'keyword.control.preprocessor':
                    check_class(findings, detail, 'sublime', 'preprocessor', rule['match'], PREPROC, prefix='#', ctx_before='')
    vocab = mnemonics + macros
    prefix_pair = any(a != b and b.startswith(a) for a in vocab for b in vocab)
    meta = any(re.escape(w) != w for w in vocab + registers)
    nt = prefix_pair or meta or not macros or not registers
    classes = (['prefix-pair'] if prefix_pair else []) + (['metacharacter-in-name'] if meta else []) + \
              (['no-macros'] if not macros else ['macros']) + (['no-registers'] if not registers else ['registers']) + \
              (['predefined-names'] if (cfg.get('predefined') or {}).get('constants') else []) + \
              (['regenerated-over-older-extension'] if case.get('regenerate') else [])
    return Outcome(findings, nt, classes, evals, sample={'mnemonics': mnemonics, 'macros': macros, 'registers': registers})

"""C02 - address assignment and label values are consistent across both passes."""
from __future__ import annotations

from hypothesis import strategies as st

from .. import isagen, proggen as G, refmodel as R, runner
from ..driver import Finding, Outcome

ID = 'C02'
LEVEL = 'exploration'
TECHNIQUE = ('property-based testing (Hypothesis): generated whole programs (labels, instructions of differing sizes, '
             'data, fills, origins, alignments, zone switches, muted and excluded regions, forward/backward references) '
             'assembled by the real CLI and compared with an independent two-pass layout model; label values are '
             'observed through operands and data probes')
RULE = ('Programs of 5..35 lines are built step by step over a generated multi-size ISA (1-, 2-, 3-byte and '
        'non-byte-multiple instructions, variable-size mov), the generator consulting the reference layouter for the '
        'current cursor so that origins land in free space. Non-trivial = the program is accepted, contains at least '
        'one forward label reference, and at least one of {origin, alignment that moves the address, zone switch, '
        'fill/zerountil, variable-size instruction, muted or excluded region} lies between a label definition and a '
        'use. Distinct = SHA-1 of the canonical case JSON.')
ASSUMPTIONS = [
    'expressions the first pass needs (.org, .fill count, .align page, .zerountil target, constants) only mention '
    'names defined earlier in source order',
    'a label directly followed by an origin/alignment/zone directive keeps the address current at its definition '
    '(the property is silent; pinned from the tree; such labels are generated but do not count as non-trivial)',
    '.org targets stay inside the zone they name; fill counts are non-negative',
    'the image window is [window_lo, highest emitted address], both on line boundaries (windows are C03)',
]
BUDGET = {'quick': 3200, 'thorough': 150000}
LEVEL_TEXT = ('Exploration with an independent layout model: whole-program facts (reserved size == emitted size, label '
              '== address of what follows, alignment, per-zone cursors) are checked on thousands of generated program '
              'shapes through the real two-pass engine, which the unit tests never run.')
LEVEL_NOTE = 'Trusted: bvf/refmodel.py Layouter + encoder; generator exclusions in evidence assumptions.'


@st.composite
def _cases(draw, tier):
    cfg = draw(G.layout_isa(zones=True, blocks=True, redefine_global=True, address_sizes=(8, 12, 16, 16, 16, 24, 32, 10, 18, 56, 64)))
    b, feats = G.general_program(draw, cfg, extra=['include'])
    return {'isa': cfg, 'items': b.items, 'lo': b.lo, 'fill': draw(st.sampled_from([0, 0xEE])), 'feats': sorted(feats)}


def strategy(tier):
    return _cases(tier)


def forward_refs(items):
    """Does some line mention a global label that is defined later in source order?"""
    defined = set()
    fwd = False

    def names(ast, out):
        if isinstance(ast, list):
            if ast and ast[0] == 'lab':
                out.add(ast[1])
            for c in ast:
                names(c, out)
        elif isinstance(ast, dict):
            for c in ast.values():
                names(c, out)
    for it in G.flatten(items):
        if it['t'] == 'label':
            defined.add(it['name'])
        elif it['t'] in ('instr', 'data'):
            ns = set()
            names(it.get('ops') or it.get('vals'), ns)
            if any(n in G.GLOBAL_LABELS and n not in defined for n in ns):
                fwd = True
    return fwd


def run_layout_case(pid, case, extra_argv=(), cli_symbols=()):
    """Shared by the layout-family properties: model verdict + real run over the window [lo, max emitted]."""
    cfg = isagen.fix_int_keys(case['isa'])
    isa = R.Isa(cfg)
    fname, text = isagen.dump_isa(cfg, 'yaml')
    files = G.render_program(case['items'])
    files[fname] = text
    verdict, lay = R.layout_program(isa, case['items'], cli_symbols)
    return cfg, isa, fname, files, verdict, lay


def execute(case, ctx):
    try:
        cfg, isa, fname, files, verdict, lay = run_layout_case(ID, case)
    except R.Unspecified as u:
        return Outcome(classes=['unspecified:' + str(u).split(':')[0]], evals=0, excluded=['unspecified: ' + str(u).split(':')[0]])
    lo = case['lo']
    if verdict == 'accepted':
        if not lay.memory:
            return Outcome(classes=['no-bytes'], evals=0)
        hi = max(lay.memory)
        lo = min(lo, min(lay.memory))
        try:
            want = lay.image(lo, hi, case['fill'])
        except R.Unspecified as u:
            return Outcome(classes=['unspecified:' + str(u)], evals=0, excluded=['unspecified: ' + str(u)])
    else:
        hi = lo + 16
        want = None
    argv = ['compile', '-c', fname, '-o', 'out.bin', '-s', str(lo), '-e', str(hi), '-f', str(case['fill']), 'main.asm']
    res = runner.run_forked(argv, files)
    detail = {'source': files['main.asm'], 'included': {k: v for k, v in files.items() if k.endswith('.asm') and k != 'main.asm'}, 'general': cfg['general'], 'predefined': cfg.get('predefined'), 'argv': argv,
              'model': verdict if verdict == 'accepted' else 'rejected: ' + lay, 'run': res.brief(),
              'model_lines': [(ln['addr'], ln['size'], G.render_item(ln['item'])) for ln in lay.lines][:60]
              if verdict == 'accepted' else None}
    findings = []
    feats = set(case['feats'])
    if res.klass == 'timeout':
        findings.append(Finding('C02/timeout', detail))
    elif verdict == 'accepted' and res.klass != 'accepted':
        findings.append(Finding('C02/valid-program-rejected', detail))
    elif verdict != 'accepted' and res.klass == 'accepted':
        findings.append(Finding('C02/invalid-program-accepted/' + lay.split(' ')[0], detail))
    elif verdict == 'accepted':
        got = res.outputs.get('out.bin')
        detail['expected_image'] = want.hex() if len(want) <= 512 else f'<{len(want)} bytes>'
        if got != want:
            tag = 'align-on-aligned' if 'align-on-aligned' in feats else \
                  'align' if 'align-moves' in feats else 'zone' if 'zone' in feats else \
                  'origin' if 'origin' in feats else 'fill' if 'fill' in feats else 'muted' if 'muted' in feats else 'plain'
            if got is not None and len(got) == len(want):
                diff = [i for i in range(len(want)) if got[i] != want[i]]
                detail['first_diff_at'] = lo + diff[0]
            findings.append(Finding('C02/wrong-image/' + tag, detail))
    fwd = forward_refs(case['items'])
    nontrivial = verdict == 'accepted' and res.klass == 'accepted' and fwd and bool(
        feats & {'origin', 'align-moves', 'zone', 'fill', 'variable-size', 'muted', 'excluded'})
    classes = ['model:' + verdict, 'outcome:' + res.klass] + ['feat:' + f for f in sorted(feats)] + \
              (['forward-ref'] if fwd else [])
    if verdict != 'accepted':
        classes.append('reject-reason:' + lay)
    sample = {'source': files['main.asm'], 'window': [lo, hi], 'features': sorted(feats), 'model': verdict}
    return Outcome(findings, nontrivial, classes, 1, sample=sample)

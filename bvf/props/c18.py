"""C18 - output is invariant under meaning-preserving changes of surface syntax (metamorphic)."""
from __future__ import annotations

import copy

from hypothesis import strategies as st

from .. import exprs, isagen, proggen as G, refmodel as R, runner
from ..driver import Finding, Outcome

ID = 'C18'
LEVEL = 'exploration'
TECHNIQUE = ('metamorphic property-based testing (Hypothesis): a generated program is rendered canonically and with a '
             'random subset of meaning-preserving rewrites (letter case of mnemonics / register names, spaces<->tabs and '
             'their amount between tokens, blank lines, comments, label on its own line <-> in front of its statement, '
             'consecutive instructions joined on one line); both texts are assembled by the real CLI and must give the '
             'same exit status and image; plus exhaustive enumeration of quoted-character statements followed by every comment text up to length 2 (quick) / 4 (thorough) and of two such statements on one line')
RULE = ('Programs as in C02 (labels that look like mnemonics/registers - mov1, amov, xa, hl2, jmp2 - are used as operands) '
        'with a per-line surface drawn independently: mnemonic case, register case, separator after the mnemonic '
        '(space(s)/tab(s)), separators around commas, indentation, trailing blanks, comment text (any printable text '
        'including quotes, mnemonics and semicolons), blank lines, label-with-statement, joined instructions. '
        'Non-trivial = at least two rewrite kinds applied and the canonical program is accepted. Distinct = SHA-1 of '
        'the case JSON.')
ASSUMPTIONS = [
    'whitespace is only changed between tokens, never inside a token or a quoted string; a label is only joined with the '
    'statement that follows it; only instructions (not directives) are joined with each other',
    'comments do not contain a vertical tab',
    "the character literal '\\' is not followed by further text that gives its line a second well-formed reading (a string "
    "beginning with an escaped quote): directly by a semicolon with an apostrophe later on, or by text whose only "
    "unescaped apostrophe ends the line (counted as not_asserted_two_readings in the lattice report)",
]
BUDGET = {'quick': 3000, 'thorough': 150000}
LEVEL_TEXT = ('Metamorphic exploration: invariance is a relation between pairs of whole programs and must hold wherever '
              'a rewrite is applied, including next to operands that look like mnemonics or registers; the rewrites '
              'are drawn per token position.')
LEVEL_NOTE = 'Trusted: the surface renderer in this module (it changes nothing but the listed surface features).'

WS = [' ', '  ', '\t', ' \t', '\t\t', '   ']
COMMENT_WORDS = ['nop', 'ldi 5', 'mov a, x', '"quoted"', "it's", ';; double', 'label:', '.org $100', '#if 0', 'jmp start',
                 'TODO fix', '100%', "'x'", 'a = b', '[hl+a]', '\\n']


def case_fn(mode, bits):
    def f(s):
        if mode == 'upper':
            return s.upper()
        if mode == 'title':
            return s[:1].upper() + s[1:]
        if mode == 'mixed':
            return ''.join(c.upper() if (bits >> i) & 1 else c for i, c in enumerate(s))
        return s
    return f


@st.composite
def _surface(draw):
    return {
        'mcase': draw(st.sampled_from(['lower', 'lower', 'upper', 'title', 'mixed'])),
        'rcase': draw(st.sampled_from(['lower', 'lower', 'upper', 'mixed'])),
        'bits': draw(st.integers(0, 255)),
        'ws1': draw(st.sampled_from([' '] * 3 + WS)),
        'comma': draw(st.sampled_from([', ', ', ', ',', ' ,', ',\t', ' , ', '\t,\t', ',  '])),
        'sp': draw(st.sampled_from([' ', ' ', '', '\t', '  '])),
        'indent': draw(st.sampled_from(['', '', '    ', '\t', ' \t ', '  '])),
        'trail': draw(st.sampled_from(['', '', ' ', '\t', '   '])),
        'comment': draw(st.one_of(st.none(), st.none(), st.sampled_from(COMMENT_WORDS),
                                  st.text(alphabet=[chr(c) for c in range(32, 127)], max_size=20))),
        'cgap': draw(st.sampled_from(['', ' ', '\t', '   '])),
        'blank_before': draw(st.sampled_from([0, 0, 0, 1, 2])),
        'join': draw(st.booleans()),
        'joinws': draw(st.sampled_from(WS)),
    }


@st.composite
def _cases(draw, tier):
    cfg = draw(G.layout_isa(zones=True, blocks=False))
    b, feats = G.general_program(draw, cfg, max_steps=20)
    # macros are written like instructions and take part in the same surface rewrites
    cfg['macros'] = {'push2': [{'operands': {'count': 1, 'operand_sets': {'list': ['imm8']}}, 'instructions': ['ldi @ARG(0)', 'nop']}],
                     'clr2': [{'instructions': ['nop', 'nop']}]}
    if b.zone() == 'GLOBAL' and b.room() >= 12 and not b.dead:
        for _ in range(draw(st.integers(0, 3))):
            b.items.append(draw(st.sampled_from([
                {'t': 'instr', 'mn': 'push2', 'ops': [{'k': 'expr', 'e': ['num', draw(st.integers(0, 255)), 'dec']}]},
                {'t': 'instr', 'mn': 'clr2', 'ops': []}, {'t': 'instr', 'mn': 'nop', 'ops': []},
                {'t': 'instr', 'mn': 'ldi', 'ops': [{'k': 'expr', 'e': ['num', draw(st.integers(0, 255)), 'dec']}]}])))
    tail_brace = False
    if b.zone() == 'GLOBAL' and b.room() >= 24 and not b.dead and 'brb' in cfg['instructions'] and draw(st.integers(0, 5)) == 0:
        # a branch whose operand ends in a closing brace, and another instruction behind it
        b.items += [{'t': 'label', 'name': 'jn0'},
                    {'t': 'instr', 'mn': 'brb', 'ops': [{'k': 'braced', 'e': ['lab', 'jn0']}]},
                    {'t': 'instr', 'mn': 'nop', 'ops': []}]
        tail_brace = True
    flat = list(G.flatten(b.items))
    surf = [draw(_surface()) for _ in flat]
    if tail_brace:
        surf[-2]['join'] = surf[-1]['join'] = True
        surf[-2]['joinws'] = '  '
        surf[-2]['comment'] = None
    return {'isa': cfg, 'items': b.items, 'surface': surf, 'lo': b.lo}


def strategy(tier):
    return _cases(tier)


def render_line(it, s):
    """One item with surface s -> text (without indentation / comment)."""
    t = it['t']
    mc = case_fn(s['mcase'], s['bits'])
    rc = case_fn(s['rcase'], s['bits'] >> 2)
    sp = s['sp']
    if t == 'instr':
        m = mc(it['mn'])
        if not it['ops']:
            return m
        return m + s['ws1'] + s['comma'].join(isagen.render_operand(o, sp, rc) for o in it['ops'])
    if t == 'data':
        return it['d'] + s['ws1'] + s['comma'].join(exprs.render(e, sp) for e in it['vals'])
    if t == 'fill':
        return '.fill' + s['ws1'] + exprs.render(it['n'], sp) + s['comma'] + exprs.render(it['v'], sp)
    if t == 'zero':
        return '.zero' + s['ws1'] + exprs.render(it['n'], sp)
    if t == 'zerountil':
        return '.zerountil' + s['ws1'] + exprs.render(it['a'], sp)
    if t == 'org':
        r = '.org' + s['ws1'] + exprs.render(it['e'], sp)
        return r + (s['ws1'] + f'"{it["zone"]}"' if it.get('zone') else '')
    if t == 'align':
        return '.align' + ('' if it.get('e') is None else s['ws1'] + exprs.render(it['e'], sp))
    if t == 'memzone':
        return '.memzone' + s['ws1'] + it['zone']
    if t == 'const':
        if it.get('eq', '=') == '=':
            return it['name'] + s['cgap'] + '=' + s['cgap'] + exprs.render(it['e'], sp)
        return it['name'] + s['ws1'] + 'EQU' + s['ws1'] + exprs.render(it['e'], sp)
    if t == 'str':
        if it['d'] == 'bare':
            return G.render_string(it['chars'], '"')
        return it['d'] + s['ws1'] + G.render_string(it['chars'], it.get('q', '"'))
    return G.render_item(it)


def render_surface(items, surf):
    """-> (text, set of rewrite kinds applied)."""
    kinds = set()
    lines = []
    flat = list(items)
    k = 0
    while k < len(flat):
        it, s = flat[k], surf[k]
        text = render_line(it, s)
        canon = G.render_item(it)
        directive = it['t'] in ('if', 'ifdef', 'ifndef', 'elif', 'else', 'endif', 'mute', 'unmute', 'define', 'createzone', 'include')
        if text != canon:
            if text.lower() != text and text.lower() == canon.lower():
                kinds.add('letter-case')
            elif ''.join(text.split()) == ''.join(canon.split()):
                kinds.add('whitespace-kind-or-amount')
            else:
                kinds.update({'letter-case', 'whitespace-kind-or-amount'})
        # joins
        if it['t'] == 'label' and s['join'] and k + 1 < len(flat) and flat[k + 1]['t'] in ('instr', 'data', 'fill', 'zero', 'str'):
            nxt = render_line(flat[k + 1], surf[k + 1])
            text = text + s['joinws'] + nxt
            kinds.add('label-in-front-of-statement')
            k += 1
        elif it['t'] == 'instr' and s['join']:
            while k + 1 < len(flat) and flat[k + 1]['t'] == 'instr' and surf[k + 1]['join']:
                joinws = s['joinws']
                if text.endswith('}') and joinws in ('  ', '\t\t'):
                    # a closing brace ends its operand: the next instruction may follow without a blank
                    joinws = ''
                    kinds.add('next-instruction-directly-after-a-closing-brace')
                text = text + joinws + render_line(flat[k + 1], surf[k + 1])
                kinds.add('instructions-joined-on-one-line')
                k += 1
        for _ in range(s['blank_before']):
            lines.append(s['trail'])
            kinds.add('blank-lines')
        if directive and it['t'] in ('define', 'include', 'createzone'):
            # the text after these directives is their argument: only indentation is added
            if s['indent']:
                kinds.add('indentation-or-trailing-blanks')
            lines.append(s['indent'] + text)
        else:
            if s['indent'] or s['trail']:
                kinds.add('indentation-or-trailing-blanks')
            if s['comment'] is not None:
                kinds.add('comment')
                text = text + s['cgap'] + ';' + s['comment'].replace('\x0b', ' ')
            lines.append(s['indent'] + text + s['trail'])
        k += 1
    return '\n'.join(lines) + '\n', kinds


def extra_phase(tier, seed):
    """Statements made of quoted characters that are themselves quotes, semicolons, commas or backslashes, followed by
    every comment text up to a length over the same alphabet: the bytes are those of the statement alone."""
    from .. import quotelattice as Q
    L = 4 if tier == 'thorough' else 2
    jobs, skipped = Q.comments(L)
    joined = Q.joins()
    jobs = joined + jobs
    runs, bad = Q.survey(jobs)
    findings = [('C18/comment-changes-a-statement-of-quoted-characters', {'kind': 'lattice', 'line': j['line'], 'bytes': j['bytes']}, d)
                for j, d in bad]
    return {'evals': len(jobs), 'cases': len(jobs), 'findings': findings,
            'nt': {'lattice:' + j['line'] for j in jobs[:2000]},
            'report': {'quoted_character_comment_lattice': {
                'lines_enumerated': len(jobs), 'of_which_two_statements_on_one_line': len(joined), 'assembler_runs': runs, 'exhaustive_up_to_comment_length': L,
                'comment_alphabet': Q.COMMENT_ALPHABET, 'not_asserted_two_readings': skipped}},
            'samples': [{'lattice_line': j['line'], 'expected_bytes': bytes(j['bytes']).hex()} for j in jobs[40:42]]}


def execute(case, ctx):
    if case.get('kind') == 'lattice':
        from .. import quotelattice as Q
        got, r = Q.assemble([case['line']])
        fs = []
        if got != bytes(case['bytes']):
            fs.append(Finding('C18/comment-changes-a-statement-of-quoted-characters',
                              {'line': case['line'], 'expected': bytes(case['bytes']).hex(),
                               'got': got.hex() if got is not None else r.klass, 'run': r.brief()}))
        return Outcome(fs, True, ['lattice-replay'], 1)
    cfg = isagen.fix_int_keys(copy.deepcopy(case['isa']))
    fname, text = isagen.dump_isa(cfg, 'yaml')
    items = list(G.flatten(case['items']))
    if any(it['t'] == 'include' for it in items):
        return Outcome(classes=['skipped:include'], evals=0)
    canon = G.render_program(case['items'])['main.asm']
    rewritten, kinds = render_surface(items, case['surface'])
    argv = ['compile', '-c', fname, '-o', 'out.bin', '-s', str(case['lo']), 'main.asm']
    r1 = runner.run_forked(argv, {fname: text, 'main.asm': canon})
    r2 = runner.run_forked(argv, {fname: text, 'main.asm': rewritten})
    detail = {'canonical': canon, 'rewritten': rewritten, 'rewrites': sorted(kinds), 'argv': argv,
              'run_canonical': r1.brief(), 'run_rewritten': r2.brief()}
    findings = []
    if r1.klass == 'timeout' or r2.klass == 'timeout':
        findings.append(Finding('C18/timeout', detail))
    elif r1.klass != r2.klass or (r1.klass == 'accepted' and r1.outputs.get('out.bin') != r2.outputs.get('out.bin')):
        # attribute to a single rewrite kind when one alone reproduces the difference
        culprit = 'combination'
        for kind in sorted(kinds):
            one, _ = render_surface(items, _only(case['surface'], kind))
            r3 = runner.run_forked(argv, {fname: text, 'main.asm': one})
            if r3.klass != r1.klass or (r1.klass == 'accepted' and r3.outputs.get('out.bin') != r1.outputs.get('out.bin')):
                culprit = kind
                detail['minimal_rewrite'] = one
                break
        what = 'exit-status' if r1.klass != r2.klass else 'image'
        findings.append(Finding(f'C18/{what}-changes-under/{culprit}', detail))
    nt = len(kinds) >= 2 and r1.klass == 'accepted'
    classes = ['outcome:' + r1.klass + '/' + r2.klass] + ['rewrite:' + k for k in sorted(kinds)]
    return Outcome(findings, nt, classes, 2, sample={'canonical': canon, 'rewritten': rewritten, 'rewrites': sorted(kinds)})


NEUTRAL = {'mcase': 'lower', 'rcase': 'lower', 'bits': 0, 'ws1': ' ', 'comma': ', ', 'sp': ' ', 'indent': '', 'trail': '',
           'comment': None, 'cgap': ' ', 'blank_before': 0, 'join': False, 'joinws': ' '}
KEEP = {
    'letter-case': ('mcase', 'rcase', 'bits'),
    'whitespace-kind-or-amount': ('ws1', 'comma', 'sp', 'cgap'),
    'blank-lines': ('blank_before',),
    'indentation-or-trailing-blanks': ('indent', 'trail'),
    'comment': ('comment',),
    'label-in-front-of-statement': ('join', 'joinws'),
    'instructions-joined-on-one-line': ('join', 'joinws'),
}


def _only(surf, kind):
    out = []
    for s in surf:
        n = dict(NEUTRAL)
        for key in KEEP.get(kind, ()):
            n[key] = s[key]
        out.append(n)
    return out

"""C01 - instruction encoding is exactly the bit layout the ISA definition prescribes."""
from __future__ import annotations

from hypothesis import strategies as st

from .. import exprs, isagen, refmodel as R, runner
from ..driver import Finding, Outcome

ID = 'C01'
LEVEL = 'exploration'
TECHNIQUE = ('property-based testing (Hypothesis): generated ISA definitions x statements x operand values; '
             'differential against an independent bit-level reference encoder; the statement is assembled at two '
             'addresses between sentinel bytes through the real CLI')
RULE = ('An ISA definition is generated end to end (address width, default endian, opcode/operand-code/argument '
        'sizes 1..64 biased to byte-boundary neighbours, per-field and per-instruction endian, byte_align flags, '
        'prefix/suffix code positions, opcode suffix, both reverse options, all operand types); one statement '
        'matching a chosen variant is generated with every operand value inside its constraints and assembled twice '
        'in one program at two addresses between sentinel bytes. Non-trivial = the statement is accepted and its '
        'field list has at least one of: a field size that is not a multiple of 8, a little-endian field wider than '
        '8 bits, alignment padding actually inserted, a prefix-positioned operand code, >=2 members in a reversed '
        'group, an opcode suffix. Distinct = distinct SHA-1 of the canonical case JSON (ISA + statement + placement).')
ASSUMPTIONS = [
    'Where several prefix-positioned operand codes occur the model pins the order of the current tree (last operand '
    'first); the property text does not fix it.',
    'Little-endian fields that are not whole bytes: full low-order bytes first, then the remaining high-order bits '
    '(the natural reading of "configured byte order"; pinned from the tree).',
    'Operand sets never contain two alternatives that read the same operand text (same shape), expressions inside '
    'brackets use only the characters the operand grammar admits ($ % word ( ) + - space).',
    'Operand values are drawn inside every configured constraint and the signed-or-unsigned range of the field.',
]
BUDGET = {'quick': 3200, 'thorough': 200000}
LEVEL_TEXT = ('Exploration with an independent encoder: thousands (quick) to hundreds of thousands (thorough) of '
              'generated (ISA definition, statement, operand values, address) tuples are assembled by the real CLI '
              'and compared byte for byte with a reference bit-packer written from the property text. The space of '
              'configurations is unbounded, so dense biased sampling with an independent oracle is the strongest '
              'decision this technique offers.')
LEVEL_NOTE = ('Trusted: bvf/refmodel.py (pack/ordered_fields/select), the generator soundness exclusions listed in '
              'evidence assumptions, PyYAML for writing the configuration file, Hypothesis.')

SENT = [0x5A, 0xA5, 0x3C, 0xC3]


@st.composite
def _cases(draw, tier):
    cfg = draw(isagen.full_isa())
    isa = R.Isa(cfg)
    mn = draw(st.sampled_from(sorted(isa.instructions)))
    variants = isa.variants(mn)
    vi = draw(st.integers(0, len(variants) - 1))
    v = variants[vi]
    oc = v.get('operands')
    alts = []          # [(aid, alt)] chosen per operand position (None op for 'empty')
    ra = rc = False
    if oc and oc.get('count', 0) > 0:
        paths = []
        if 'specific_operands' in oc:
            paths.append('spec')
        if 'operand_sets' in oc:
            paths.append('sets')
        path = draw(st.sampled_from(paths))
        if path == 'spec':
            spec = draw(st.sampled_from(list(oc['specific_operands'].values())))
            alts = list(spec['list'].items())
            ra, rc = bool(spec.get('reverse_argument_order')), bool(spec.get('reverse_bytecode_order'))
        else:
            for sname in oc['operand_sets']['list']:
                ov = cfg['operand_sets'][sname]['operand_values']
                aid = draw(st.sampled_from(sorted(ov)))
                alts.append((aid, ov[aid]))
            ra = bool(oc['operand_sets'].get('reverse_argument_order'))
            rc = bool(oc['operand_sets'].get('reverse_bytecode_order'))
    glo, ghi = isa.zones['GLOBAL']
    consts = {'K_ONE': draw(st.integers(0, 9)), 'kval': draw(st.integers(0, 70000))}
    # throw-away operands to learn the static size
    place0 = {'address': glo, 'consts': {}, 'zones': isa.zones, 'size_hint': 1, 'minted': {}}
    ops0 = []
    for aid, alt in alts:
        if alt['type'] == 'empty':
            ops0.append(None)
            continue
        o = draw(isagen.operand_for(alt, None, place0))
        if o is None:
            return {'skip': 'no operand value satisfies the constraints', 'isa': cfg}
        ops0.append(o)
    ctx = R.Ctx(isa, None, 0, isa.zones)
    fl = R.ordered_fields(v, [(a[0], a[1], o) for a, o in zip(alts, ops0)], ra, rc, ctx, isa.endian)
    size = R.size_of([(0, n, al, en) for n, al, en, _ in fl])
    span = 2 * size + 8
    if ghi - glo + 1 < span + 2:
        return {'skip': 'address space too small for two placements', 'isa': cfg}
    gap = draw(st.integers(0, min(40, ghi - glo + 1 - span - 1)))
    a1 = draw(st.one_of(st.just(glo), st.integers(glo, ghi - span - gap), st.just(ghi - span - gap)))
    a2 = a1 + size + 2 + gap
    fwd = a2 + size + 2
    consts_all = dict(consts)
    if fwd <= ghi:
        consts_all['fwd'] = fwd
    placements = []
    shared = {}
    first = {}
    same_text = False
    minted = {}
    # twin mode: the second statement is the first up to letter case (case-twin constants, case-swapped letter
    # literals) but denotes other values: nothing but the statement's own operand values may reach its bytes
    twin = draw(st.integers(0, 3)) == 0
    if twin:
        consts_all = isagen.ForcedConsts(consts_all)
    for pi, base in enumerate((a1, a2)):
        place = {'address': base + 1, 'consts': consts_all, 'zones': isa.zones, 'size_hint': size, 'minted': minted}
        ops = []
        for j, (aid, alt) in enumerate(alts):
            if alt['type'] == 'empty':
                continue
            dep = alt['type'] == 'relative_address' or (alt['type'] == 'address' and alt['argument'].get('slice_lsb')) \
                or alt['type'] in ('indexed_register', 'indirect_indexed_register')
            if not dep and j in shared:
                ops.append(shared[j])
                continue
            if dep and pi == 1 and j in first and draw(st.integers(0, 2)) == 0:
                # the very same operand text at another address: an address-relative field must be computed afresh
                # (and may now violate its constraints, which the reference decides)
                ops.append(first[j])
                same_text = True
                continue
            o = draw(isagen.operand_for(alt, None, place))
            if o is None:
                return {'skip': 'no operand value satisfies the constraints at this address', 'isa': cfg}
            if not dep:
                shared[j] = o
            elif pi == 0:
                first[j] = o
            ops.append(o)
        placements.append({'base': base, 'ops': ops})
    consts = dict(consts)
    consts.update(minted)
    if same_text and not twin and draw(st.booleans()):
        # the repeated statement written with plain decimal numbers only (names and other notations replaced by their values)
        table0 = dict(consts_all)
        table0.update(minted)

        def plain(x):
            if isinstance(x, dict):
                return {k: plain(v) for k, v in x.items()}
            if isinstance(x, list):
                if len(x) == 2 and x[0] == 'lab' and x[1] in table0 and table0[x[1]] >= 0:
                    # (a negative value stays a named constant: an index position takes a single token)
                    return ['num', table0[x[1]], 'dec']
                if len(x) == 3 and x[0] == 'num':
                    return ['num', x[1], 'dec']
                return [plain(v) for v in x]
            return x
        for pl in placements:
            pl['ops'] = [plain(o) for o in pl['ops']]
    if twin:
        every = dict(consts)
        if fwd <= ghi:
            every['fwd'] = fwd
        deltas = {n: draw(st.sampled_from([-2, -1, 1, 2, 3, 32, -32])) for n in sorted(every)}
        names = {n: n.swapcase() for n in every}
        tw_consts = {names[n]: every[n] + deltas[n] for n in every}
        ops2 = []
        for o1, o2, (aid, alt) in zip(placements[0]['ops'], placements[1]['ops'],
                                      [a for a in alts if a[1]['type'] != 'empty']):
            ops2.append(o2 if o2.get('addr_dep') else isagen.twin_operand(o1, names))
        table = dict(every)
        table.update(tw_consts)

        def _res(name):
            if name in table:
                return table[name]
            raise R.Reject('unresolved ' + name)
        try:
            R.encode_instruction(isa, mn, ops2, _res, a2 + 1)
            if ops2 != placements[1]['ops']:
                placements[1]['ops'] = ops2
                consts.update(tw_consts)
            else:
                twin = False
        except (R.Reject, R.Unspecified):
            twin = False
    return {
        'twin': twin, 'same_text_at_both_addresses': same_text,
        'isa': cfg, 'fmt': draw(st.sampled_from(['yaml', 'yaml', 'json'])), 'mn': mn, 'variant_intended': vi,
        'consts': consts, 'fwd': fwd if fwd <= ghi else None, 'size_intended': size,
        'placements': placements, 'fill': draw(st.sampled_from([0, 0xEE, 0xFF])),
        'sp': draw(st.sampled_from([' ', ' ', ''])),
    }


def strategy(tier):
    return _cases(tier)


def build_program(case):
    lines = [f'{k} = {v}' for k, v in case['consts'].items()]
    s = 0
    for p in case['placements']:
        lines.append(f'.org {p["base"]}')
        lines.append(f'.byte ${SENT[s]:02x}')
        lines.append(isagen.render_statement(case['mn'], p['ops'], sp=case['sp']))
        lines.append(f'.byte ${SENT[s + 1]:02x}')
        s += 2
    if case['fwd'] is not None:
        lines.append('fwd:')
    return '\n'.join(lines) + '\n'


def field_features(isa, case):
    feats = set()
    try:
        _, variant, (matched, ra, rc) = R.select_statement(isa, case['mn'], case['placements'][0]['ops'])
    except (R.Reject, R.Unspecified):
        return feats
    ctx = R.Ctx(isa, None, 0, isa.zones)
    fl = R.ordered_fields(variant, matched, ra, rc, ctx, isa.endian)
    pos = 0
    for n, al, en, _ in fl:
        if al and pos % 8:
            feats.add('alignment-padding')
            pos += 8 - pos % 8
        if n % 8:
            feats.add('non-byte-field')
        if en == 'little' and n > 8:
            feats.add('little-endian-multibyte')
            if n % 8:
                feats.add('little-endian-partial-byte')
        pos += n
    if 'suffix' in variant['bytecode']:
        feats.add('opcode-suffix')
    npre = sum(1 for _, a, o in matched if (a.get('bytecode') or {}).get('position') == 'prefix')
    if npre:
        feats.add('prefix-code')
    if npre >= 2:
        feats.add('two-prefix-codes')
    ncodes = sum(1 for _, a, o in matched if a.get('bytecode'))
    nargs = sum(1 for n_, al, en, fn in fl) - 1 - ncodes - (1 if 'suffix' in variant['bytecode'] else 0)
    if rc and ncodes >= 2:
        feats.add('reversed-codes')
    if ra and nargs >= 2:
        feats.add('reversed-args')
    for _, a, _o in matched:
        feats.add('kind:' + a['type'])
    return feats


def execute(case, ctx):
    if 'skip' in case:
        return Outcome(classes=['skipped:' + case['skip']], evals=0, excluded=[case['skip']])
    cfg = isagen.fix_int_keys(case['isa'])
    isa = R.Isa(cfg)
    fmt = 'yaml' if isagen.has_int_keys(cfg) else case['fmt']
    fname, text = isagen.dump_isa(cfg, fmt)
    src = build_program(case)
    consts = dict(case['consts'])
    if case['fwd'] is not None:
        consts['fwd'] = case['fwd']

    def resolve(name):
        if name in consts:
            return consts[name]
        raise R.Reject('unresolved label ' + name)

    expected = []
    verdict = 'accept'
    why = ''
    try:
        # the label `fwd` and the second placement were laid out for the size of the variant the generator had in mind:
        # when the statement is read by a variant of another size the layout (and every value derived from it) is off
        for p in case['placements']:
            if R.instruction_size(isa, case['mn'], p['ops']) != case['size_intended']:
                return Outcome(classes=['skipped:variant-differs-from-intended'], evals=0)
    except (R.Reject, R.Unspecified):
        pass
    try:
        for p in case['placements']:
            expected.append(R.encode_instruction(isa, case['mn'], p['ops'], resolve, p['base'] + 1))
    except R.Reject as r:
        verdict, why = 'reject', r.why
    except R.Unspecified as u:
        return Outcome(classes=['unspecified:' + str(u)], evals=0, excluded=['unspecified: ' + str(u)])
    p1, p2 = case['placements']
    if verdict == 'accept' and (len(expected[0]) != case['size_intended'] or len(expected[1]) != case['size_intended']):
        # the model selected another variant than the generator intended and the layout no longer fits
        return Outcome(classes=['skipped:variant-differs-from-intended'], evals=0)
    start = p1['base']
    end = p2['base'] + case['size_intended'] + 1
    argv = ['compile', '-c', fname, '-o', 'out.bin', '-s', str(start), '-e', str(end), '-f', str(case['fill']), 'p.asm']
    res = runner.run_forked(argv, {fname: text, 'p.asm': src})
    detail = {'source': src, 'isa_file': fname, 'argv': argv, 'model': verdict + (': ' + why if why else ''),
              'run': res.brief()}
    feats = field_features(isa, case)
    classes = sorted(feats) + ['outcome:' + res.klass, 'model:' + verdict] + (['case-twin-statements'] if case.get('twin') else []) + \
        (['address-relative-operand-text-repeated-at-another-address'] if case.get('same_text_at_both_addresses') else [])
    findings = []
    if res.klass == 'timeout':
        findings.append(Finding('C01/timeout', detail))
    elif verdict == 'reject':
        if res.klass == 'accepted':
            findings.append(Finding('C01/model-rejects-tool-accepts', detail))
    elif res.klass != 'accepted':
        findings.append(Finding('C01/model-accepts-tool-rejects', detail))
    else:
        img = bytearray([case['fill']]) * (end - start + 1)
        off = 0
        img[off] = SENT[0]
        img[off + 1:off + 1 + len(expected[0])] = expected[0]
        img[off + 1 + len(expected[0])] = SENT[1]
        off = p2['base'] - start
        img[off] = SENT[2]
        img[off + 1:off + 1 + len(expected[1])] = expected[1]
        img[off + 1 + len(expected[1])] = SENT[3]
        got = res.outputs.get('out.bin')
        detail['expected_image'] = bytes(img).hex()
        detail['expected_stmt'] = [e.hex() for e in expected]
        if got is None:
            findings.append(Finding('C01/no-image-written', detail))
        elif got != bytes(img):
            sig = 'C01/wrong-bytes'
            if len(got) != len(img):
                sig = 'C01/wrong-image-length'
            elif 'little-endian-partial-byte' in feats:
                sig += '/little-endian-partial-byte'
            elif 'alignment-padding' in feats:
                sig += '/with-alignment'
            elif 'prefix-code' in feats:
                sig += '/with-prefix-code'
            findings.append(Finding(sig, detail))
    nontrivial = verdict == 'accept' and res.klass == 'accepted' and bool(
        feats & {'non-byte-field', 'little-endian-multibyte', 'alignment-padding', 'prefix-code', 'reversed-codes',
                 'reversed-args', 'opcode-suffix'})
    sample = {'statement': isagen.render_statement(case['mn'], p1['ops'], sp=case['sp']), 'at': [p1['base'] + 1, p2['base'] + 1],
              'expected_bytes': [e.hex() for e in expected] if verdict == 'accept' else why,
              'features': sorted(feats), 'isa_general': cfg['general']}
    return Outcome(findings, nontrivial, classes, 1, sample=sample)

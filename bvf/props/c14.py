"""C14 - assembly always terminates and fails closed."""
from __future__ import annotations

import copy
import sys

from hypothesis import strategies as st

from .. import isagen, proggen as G, refmodel as R, runner
from ..driver import Finding, Outcome

ID = 'C14'
LEVEL = 'exploration'
TECHNIQUE = ('fuzzing / property-based testing (Hypothesis): corruptions of valid generated programs, grammar-flavoured '
             'random text, ground-truth fault injection and unmodified valid programs, each run in a genuine '
             'interpreter process with a watchdog; exit status and the (optionally pre-existing) output file are the '
             'oracle; a timeout is re-run under a loop non-progress monitor before it counts')
RULE = ('Four input classes: (a) token/line-level corruptions of valid generated programs (drop, duplicate, garble, '
        'zero-length directives inserted anywhere, unbalanced conditionals, bad includes); (b) random lines over an '
        'assembly-flavoured token alphabet; (c) one fault with known ground truth injected into a selected unmuted line '
        'of a valid program (unresolvable label, unknown mnemonic, operand no variant accepts, value its field cannot '
        'hold); (d) unmodified valid programs; (e) stress inputs: identifiers, blank runs, nesting and operator chains of 18..70 '
        'characters in every directive position. With and without --pretty-print in all four formats; the output path '
        'holds a sentinel file in half of the cases. Non-trivial = class (c), or a corrupted/random input of which '
        'the tool accepted or rejected after parsing at least one line (i.e. every case except empty inputs). '
        'Distinct = SHA-1 of the case JSON.')
ASSUMPTIONS = [
    'termination is decided up to a 10 s watchdog (about 40x the slowest observed valid case); a timeout is only a '
    'violation when (a) the re-run under the non-progress monitor shows a loop repeating an identical local state, or '
    '(b) re-running the same input with its long character runs cut to 10,12,...,22 shows the wall time multiplying '
    'by >= 2.5 for each +2 characters at least twice (exponential time in the input length); other timeouts are '
    'reported as inconclusive in evidence',
    'fault injection (c) targets lines the reference layout marks as selected (muted or not)',
]
SHARD_MIN = 20
BUDGET = {'quick': 640, 'thorough': 40000}
LEVEL_TEXT = ('Exploration / fuzzing with a process-level oracle: termination and fail-closed behaviour are claims about '
              'all inputs, observed only from outside the process (exit status, wall clock, output file); generated '
              'corruptions keep the inputs near the accepting paths where such failures hide.')
LEVEL_NOTE = ('Trusted: the process runner (genuine /venv/bin/python -m bespokeasm), the watchdog, the non-progress '
              'monitor (sys.settrace) used only to confirm timeouts.')

SENTINEL = b'SENTINEL-DO-NOT-TOUCH-0123456789abcdef\n'
ALPHABET = ['nop', 'ldi', 'jmp', 'mov', 'br', 'brb', 'w12', 'a', 'x', 'hl', '[', ']', ',', ';', ':', '.org', '.byte', '.fill',
            '.zero', '.zerountil', '.align', '.memzone', '.2byte', '.cstr', '#if', '#endif', '#else', '#elif', '#ifdef',
            '#define', '#include', '#mute', '#unmute', '#create_memzone', '#require', '"', "'", '0', '1', '$ff', '%101',
            '0x10', 'lbl', 'lbl:', '.loc:', '_f:', '=', 'EQU', '+', '-', '*', '/', '(', ')', '<<', '>>', '&', '|', '^',
            'BYTE1(', 'LSB(', 'GLOBAL', 'ROM', '@', '!', '{', '}', '\\', '\t', '  ', 'foo.asm', '==', '>=', '<']
ZERO_LEN = ['.fill 0, 7', '.zero 0', '.zerountil 0', '.fill 0, 0']


@st.composite
def _valid(draw):
    cfg = draw(G.layout_isa(zones=True, blocks=True, address_sizes=(8, 12, 16, 16, 16, 40, 48)))
    b, feats = G.general_program(draw, cfg, max_steps=14, extra=['include'])
    return cfg, b


@st.composite
def _cases(draw, tier):
    klass = draw(st.sampled_from(['corrupt', 'corrupt', 'random', 'fault', 'fault', 'valid', 'stress', 'binary']))
    pp = draw(st.sampled_from([None, None, 'listing', 'hex', 'intel_hex', 'minhex']))
    pre = draw(st.booleans())
    if klass == 'binary':
        # arbitrary bytes (invalid UTF-8, NUL, control characters, CR/LF mixes) mixed with a few real lines
        chunks = draw(st.lists(st.one_of(st.binary(max_size=40),
                                         st.sampled_from([b'nop\n', b'.byte 1\r\n', b'lbl:\n', b'\xff\xfe', b'\x00', b'\x0b', b'\x0c',
                                                          b'\xc3\xa9 = 5\n', b'.cstr "\xe2\x82\xac"\n', b'\r', b'\n\n'])),
                               min_size=1, max_size=8))
        cfg = draw(G.layout_isa(zones=False, address_sizes=(16,)))
        return {'klass': klass, 'isa': cfg, 'files': {'main.asm': b''.join(chunks).hex()}, 'hex': True, 'pp': pp, 'pre': pre}
    if klass == 'stress':
        # long identifiers, long runs of blanks, deep nesting, long operator chains - legal and almost-legal
        n = draw(st.integers(18, 70))
        w = draw(st.sampled_from(['A', 'ab_', 'x9', 'Q'])) * n
        w = w[:n]
        sp = draw(st.sampled_from([' ', '\t', ' \t'])) * n
        shapes = [
            f'#define {w} 1\n#if {w}\n.byte 1\n#endif',
            f'#define {w} 1\n#if {w}{sp}{w}\n.byte 1\n#endif',
            f'#define {w} 1\n#if {w} == 1{sp}\n.byte 1\n#endif',
            f'.fill 2{sp}3',
            f'.fill 2,{sp}3',
            f'.byte {w}',
            f'{w}:\n.byte 1\n.2byte {w}',
            f'{w} = 5\n.byte {w}{sp}+{sp}1',
            f'.org 4{sp}"GLOBAL"',
            f'.zero 3{sp}; comment',
            f'jmp {{{w}',
            f'brb {{{w}',
            f'lbl: brb {{lbl{sp}',
            f'lbl: brb {{{sp}lbl',
            f'lbl: brb {{lbl{sp}+{sp}1',
            f'lbl: brb {{lbl{sp}}}',
            f'lbl: br lbl{sp}+{sp}0',
            f'jmp [{w}',
            f'mov a, [hl +{sp}{w}',
            f'.byte ' + '(' * n + '1' + ')' * n,
            f'.byte ' + '(' * n + '1',
            f'.byte ' + '+'.join(['1'] * n),
            f'.byte ' + '-' * n + '1',
            f'.byte "' + '\\"' * n,
            f'.cstr "' + 'ab' * n + '"',
            f'ldi{sp}5',
            f'nop{sp}nop',
            f'lbl:{sp}nop',
            f'#include{sp}"missing.asm"',
            f'#create_memzone{sp}ZZ{sp}0{sp}1',
            f'.memzone{sp}GLOBAL',
            f'#require "{w} >= 1.0.0"',
            f'.byte 1,{sp}2,{sp}3',
            f'.byte BYTE1(' * min(n, 40) + '1' + ')' * min(n, 40),
        ]
        cfg = draw(G.layout_isa(zones=False, address_sizes=(16,)))
        body = draw(st.lists(st.sampled_from(shapes), min_size=1, max_size=3))
        return {'klass': klass, 'isa': cfg, 'files': {'main.asm': '\n'.join(body) + '\n'}, 'pp': pp, 'pre': pre}
    if klass == 'random':
        lines = []
        for _ in range(draw(st.integers(1, 12))):
            lines.append(' '.join(draw(st.lists(st.sampled_from(ALPHABET), min_size=0, max_size=7))))
        cfg = draw(G.layout_isa(zones=True, address_sizes=(8, 12, 16)))
        return {'klass': klass, 'isa': cfg, 'files': {'main.asm': '\n'.join(lines) + '\n'}, 'pp': pp, 'pre': pre}
    cfg, b = draw(_valid())
    items = b.items
    if klass == 'valid':
        return {'klass': klass, 'isa': cfg, 'items': items, 'pp': pp, 'pre': pre}
    if klass == 'fault':
        fault = draw(st.sampled_from(['unresolvable-label', 'unknown-mnemonic', 'no-variant-accepts', 'value-too-large',
                                      'unknown-mnemonic-after-directive', 'unresolvable-label-in-a-line-without-bytes']))
        return {'klass': klass, 'isa': cfg, 'items': items, 'fault': fault, 'pick': draw(st.integers(0, 1000)),
                'pp': pp, 'pre': pre}
    files = G.render_program(items)
    fn = draw(st.sampled_from(sorted(files)))
    lines = files[fn].split('\n')
    for _ in range(draw(st.integers(1, 3))):
        op = draw(st.sampled_from(['drop-line', 'dup-line', 'drop-token', 'dup-token', 'garble', 'zero-len', 'stray-cond',
                                   'bad-include', 'insert-token', 'zero-len', 'swap-lines']))
        i = draw(st.integers(0, max(0, len(lines) - 1)))
        if op == 'drop-line' and lines:
            lines.pop(i)
        elif op == 'dup-line' and lines:
            lines.insert(i, lines[i])
        elif op in ('drop-token', 'dup-token', 'garble', 'insert-token') and lines:
            toks = lines[i].split(' ')
            j = draw(st.integers(0, max(0, len(toks) - 1)))
            if op == 'drop-token':
                toks.pop(j)
            elif op == 'dup-token':
                toks.insert(j, toks[j])
            elif op == 'insert-token':
                toks.insert(j, draw(st.sampled_from(ALPHABET)))
            else:
                t = toks[j]
                if t:
                    k = draw(st.integers(0, len(t) - 1))
                    toks[j] = t[:k] + draw(st.sampled_from(list('[]{}();:,.#$%"\'\\ xX09_-+'))) + t[k + 1:]
            lines[i] = ' '.join(toks)
        elif op == 'zero-len':
            lines.insert(draw(st.sampled_from([i, len(lines)])), draw(st.sampled_from(ZERO_LEN)))
        elif op == 'stray-cond':
            lines.insert(i, draw(st.sampled_from(['#endif', '#else', '#elif 1', '#if 1', '#ifdef X1', '#mute', '#if'])))
        elif op == 'bad-include':
            lines.insert(i, draw(st.sampled_from(['#include "missing.asm"', '#include "main.asm"', '#include', '#include "inc1.asm"'])))
        elif op == 'swap-lines' and len(lines) > 1:
            k = draw(st.integers(0, len(lines) - 2))
            lines[k], lines[k + 1] = lines[k + 1], lines[k]
    files[fn] = '\n'.join(lines)
    return {'klass': klass, 'isa': cfg, 'files': files, 'pp': pp, 'pre': pre}


def strategy(tier):
    return _cases(tier)


def inject(case):
    """-> items with the fault, or None when no suitable line exists / the program is not valid."""
    isa = R.Isa(isagen.fix_int_keys(copy.deepcopy(case['isa'])))
    try:
        verdict, lay = R.layout_program(isa, case['items'])
    except R.Unspecified:
        return None
    if verdict != 'accepted':
        return None
    # muted lines are part of the program too: their faults are faults
    cands = [ln for ln in lay.lines if ln['has_bytes'] and ln['item']['t'] in ('instr', 'data')]
    if not cands:
        return None
    target = cands[case['pick'] % len(cands)]['item']

    def find(its, path):
        for k, it in enumerate(its):
            if it is target:
                return path + [k]
            if it['t'] == 'include':
                p = find(it['items'], path + [k])
                if p:
                    return p
        return None
    path = find(case['items'], [])
    if path is None:
        return None
    items = copy.deepcopy(case['items'])
    its = items
    for k in path[:-1]:
        its = its[k]['items']
    k = path[-1]
    it = its[k]
    f = case['fault']
    if f == 'unresolvable-label':
        its[k] = {'t': 'data', 'd': '.2byte', 'vals': [['lab', 'nowhere_defined']]} if it['t'] == 'data' else \
            {'t': 'instr', 'mn': 'jmp', 'ops': [{'k': 'expr', 'e': ['lab', 'nowhere_defined']}]}
    elif f == 'unresolvable-label-in-a-line-without-bytes':
        # the value of a fill that emits nothing still names something that does not exist
        its[k] = {'t': 'fill', 'n': ['num', 0, 'dec'], 'v': ['lab', 'nowhere_defined']}
    elif f == 'unknown-mnemonic':
        its[k] = {'t': 'instr', 'mn': 'frob', 'ops': [{'k': 'expr', 'e': ['num', 1, 'dec']}]}
    elif f == 'unknown-mnemonic-after-directive':
        # the unknown statement shares its line with a directive that is complete without it
        head = ['.byte "ab"', '.cstr "x y"', ".asciiz 'q'", '.byte 1, 2', '.2byte $1234', '.fill 2, 7', '.zero 1', '.align',
                'nop'][case['pick'] // 7 % 9]
        tail = ['frob', 'frob 1', '!!', '@ 5', 'frob: frob', '$'][case['pick'] // 3 % 6]
        if tail[0].isalpha() and not head.endswith(('"', "'")) and head != 'nop':
            tail = '!' + tail       # after an expression a word would be read as part of the expression (rejected as well)
        its[k] = {'t': 'raw', 'text': head + ' ' + tail}
    elif f == 'no-variant-accepts':
        its[k] = {'t': 'instr', 'mn': 'ldi', 'ops': [{'k': 'reg', 'r': 'a', 'deco': None}]}
    else:
        its[k] = {'t': 'instr', 'mn': 'ldi', 'ops': [{'k': 'expr', 'e': ['num', 300, 'dec']}]}
    return items


def _monitor():
    """Trace hook for the forked re-run of a timed-out case: reports a loop that revisits a line with identical locals."""
    seen = {}

    def snap(frame):
        out = []
        for k, v in frame.f_locals.items():
            if isinstance(v, (int, str, bool, type(None))):
                out.append((k, v))
            elif isinstance(v, (list, dict, set, bytes, bytearray, tuple)):
                out.append((k, len(v)))
        return tuple(out)

    def tracer(frame, event, arg):
        if 'bespokeasm' not in frame.f_code.co_filename:
            return None
        if event == 'line':
            key = (id(frame), frame.f_lineno)
            s = snap(frame)
            c = seen.get(key)
            if c is not None and c[0] == s:
                c[1] += 1
                if c[1] >= 1000:
                    sys.stderr.write(f'NONPROGRESS {frame.f_code.co_filename}:{frame.f_lineno} locals={s[:8]}\n')
                    sys.stderr.flush()
                    import os
                    os._exit(99)
            else:
                seen[key] = [s, 0]
        return tracer
    sys.settrace(tracer)


def _shrink_runs(text, length):
    import re
    return re.sub(r'(\w)\1{11,}|((?:\w\w)|(?:\w\w\w))\2{5,}|([ \t])[ \t]{11,}|([^\w\s])\4{11,}|(\\")(?:\\"){11,}',
                  lambda m: (m.group(1) or m.group(2) or m.group(3) or m.group(4) or m.group(5)) *
                  max(1, length // len(m.group(1) or m.group(2) or m.group(3) or m.group(4) or m.group(5))), text)


def scaling_probe(argv, files):
    """For an input that timed out: re-run it with every long run of repeated characters cut to 10, 12, ... 20 and
    time each run.  Returns the (length, seconds) series; exponential growth in the run length is the confirmation."""
    series = []
    for length in (10, 12, 14, 16, 18, 20, 22):
        fs = {k: (_shrink_runs(v, length) if k.endswith('.asm') and isinstance(v, str) else v) for k, v in files.items()}
        r = runner.run_forked(argv, fs, timeout_s=12, crosscheck=False)
        series.append((length, None if r.timed_out else round(r.wall_s, 3)))
        if r.timed_out:
            break
    return series


def exponential(series):
    ts = [(n, t) for n, t in series]
    blow = 0
    for (n1, t1), (n2, t2) in zip(ts, ts[1:]):
        if t1 is not None and t1 >= 0.15 and (t2 is None or t2 >= 2.5 * t1):
            blow += 1
    return blow >= 2


def execute(case, ctx):
    cfg = isagen.fix_int_keys(copy.deepcopy(case['isa']))
    fname, text = isagen.dump_isa(cfg, 'yaml')
    klass = case['klass']
    if 'files' in case:
        files = dict(case['files'])
        if case.get('hex'):
            files = {k: bytes.fromhex(v) for k, v in files.items()}
    else:
        items = case['items']
        if klass == 'fault':
            items = inject(case)
            if items is None:
                return Outcome(classes=['skipped:no-injectable-line'], evals=0)
        files = G.render_program(items)
    files[fname] = text
    if case['pre']:
        files['out.bin'] = SENTINEL
    argv = ['compile', '-c', fname, '-o', 'out.bin']
    if cfg['general']['address_size'] > 16:
        # keep the image small: start the window where the generators place the code
        argv += ['-s', str(G.window_of(R.Isa(cfg))[0])]
    if case['pp']:
        argv += ['--pretty-print', '-t', case['pp'], '--pretty-print-output', 'pp.txt']
    argv.append('main.asm')
    res = runner.run_subprocess(argv, files, timeout_s=10)
    detail = {'class': klass, 'fault': case.get('fault'),
              'sources': {k: (v if isinstance(v, str) else repr(v)) for k, v in files.items() if k.endswith('.asm')},
              'argv': argv, 'preexisting_output': case['pre'], 'run': res.brief(), 'general': cfg['general']}
    findings = []
    classes = ['class:' + klass, 'pp:' + str(case['pp']), 'pre:' + str(case['pre'])]
    if res.timed_out:
        mres = runner.run_forked(argv, files, timeout_s=60, trace_hook=_monitor)
        detail['monitor'] = mres.brief()
        if mres.exit_code == 99 and 'NONPROGRESS' in mres.stderr:
            findings.append(Finding('C14/does-not-terminate', detail))
        else:
            series = scaling_probe(argv, files)
            detail['scaling_probe_seconds_by_run_length'] = series
            if exponential(series):
                findings.append(Finding('C14/does-not-terminate/time-grows-exponentially-with-input-length', detail))
            else:
                classes.append('timeout-inconclusive')
        return Outcome(findings, True, classes + ['outcome:timeout'], 2, sample={'class': klass, 'sources': detail['sources']})
    touched = 'out.bin' in res.outputs
    if res.exit_code != 0 and touched:
        sig = 'C14/image-written-although-assembly-failed'
        if case['pp'] and 'Writing' in res.stdout:
            sig += '/failure-in-pretty-printer'
        findings.append(Finding(sig, detail))
    if res.exit_code == 0 and not touched:
        findings.append(Finding('C14/success-reported-without-image', detail))
    if klass == 'fault' and res.exit_code == 0:
        findings.append(Finding('C14/success-reported-for-faulty-program/' + case['fault'], detail))
    tb = 'traceback' if 'Traceback' in res.stderr else ('clean-error' if res.exit_code else 'success')
    classes += ['outcome:' + tb]
    nt = klass == 'fault' or bool(''.join(str(v) for v in detail['sources'].values()).strip())
    return Outcome(findings, nt, classes, 1, sample={'class': klass, 'fault': case.get('fault'), 'argv': argv,
                                                     'sources': detail['sources'], 'exit': res.exit_code})


def extra_phase(tier, seed):
    """Coverage-guided campaign on the statement parser (bvf/fuzz/asm_fuzz.py): inputs that ran longer than 2 s inside
    the target are re-run through the real CLI and C14's scaling probe; only confirmed blow-ups are findings."""
    import json
    import os
    import shutil
    import subprocess
    import tempfile
    import yaml
    here = os.path.dirname(os.path.dirname(os.path.dirname(os.path.abspath(__file__))))
    if not os.path.isdir(os.path.join(here, '.deps', 'atheris')):
        return {'report': {'atheris': 'not installed (setup_cmd installs it into .deps); campaign skipped'}}
    shards, secs = (16, 120) if tier == 'thorough' else (4, 6)
    root = tempfile.mkdtemp(prefix='bvf-fuzz-', dir=runner.scratch_root())
    execs = lines = slow_n = 0
    slow_sources = []
    try:
        procs = []
        for k in range(shards):
            out = os.path.join(root, f's{k}')
            os.makedirs(os.path.join(out, 'corpus'))
            cmd = [runner.PYTHON, os.path.join(here, 'bvf', 'fuzz', 'asm_fuzz.py'), out, os.path.join(out, 'corpus'),
                   f'-max_total_time={secs}', f'-seed={(seed * 1000 + k) % (2 ** 31) + 1}', '-rss_limit_mb=3000',
                   f'-artifact_prefix={out}/', '-verbosity=0', '-timeout=60']
            procs.append((out, subprocess.Popen(cmd, cwd=out, stdout=subprocess.DEVNULL, stderr=subprocess.DEVNULL,
                                                env=dict(os.environ, PYTHONHASHSEED='0'))))
        for out, p in procs:
            try:
                p.wait(timeout=secs + 180)
            except subprocess.TimeoutExpired:
                p.kill()
            try:
                st_ = json.load(open(os.path.join(out, 'stats.json')))
                execs += st_['execs']
                lines += st_['lines']
                slow_n += st_['slow']
            except Exception:
                pass
            fp = os.path.join(out, 'slow.jsonl')
            if os.path.exists(fp):
                for line in open(fp):
                    slow_sources.append(json.loads(line)['source'])
    finally:
        shutil.rmtree(root, ignore_errors=True)
    # confirm through the real CLI
    from ..fuzz import asm_isa
    cfg = yaml.safe_load(asm_isa.ISA_YAML)
    fname, text = isagen.dump_isa(cfg, 'yaml')
    findings = []
    confirmed = 0
    argv = ['compile', '-c', fname, '-o', 'out.bin', 'main.asm']
    for src in slow_sources[:12]:
        files = {fname: text, 'main.asm': src}
        series = scaling_probe(argv, files)
        if exponential(series):
            confirmed += 1
            case = {'klass': 'stress', 'isa': cfg, 'files': {'main.asm': _shrink_runs(src, 40)}, 'pp': None, 'pre': False}
            findings.append(('C14/does-not-terminate/time-grows-exponentially-with-input-length', case,
                             {'source': src, 'scaling_probe_seconds_by_run_length': series, 'found_by': 'atheris campaign'}))
    rep = {'engine': 'atheris 3.1 / libFuzzer on LineOjectFactory.parse_line', 'shards': shards, 'seconds_per_shard': secs,
           'executions': execs, 'lines_parsed': lines, 'iterations_over_2s': slow_n, 'confirmed_blow_ups': confirmed,
           'corpus': 'empty'}
    return {'evals': execs, 'cases': execs, 'findings': findings[:1], 'report': rep}

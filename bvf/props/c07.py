"""C07 - numeric expressions evaluate to their arithmetic value.

Generated: expression ASTs from the grammar (all literal notations, labels, all operators, unary
minus, BYTEn/LSB, redundant parentheses, random spacing) rendered with the *minimal* parentheses the
property's precedence table implies; and malformed token sequences (token-level mutations of
well-formed ones, decided by an independent recogniser).
Oracle: exact rational evaluation (fractions.Fraction), final truncation toward zero.
Layers: API (parse_expression(...).get_value(...), pure function, in-process) and system
(`.8byte <expr>` / `v = <expr>` through the real CLI, value read back from the image).
"""
from __future__ import annotations
import re

import json

from hypothesis import strategies as st

from .. import exprs, runner
from ..driver import Finding, Outcome

ID = 'C07'
LEVEL = 'exploration'
TECHNIQUE = 'property-based testing (Hypothesis): grammar-generated expressions vs exact rational reference ' \
            'evaluator; token-mutation fuzzing vs independent recogniser; API + CLI layers; metamorphic relation (computed operand vs the plain number it equals) where no value is fixed; exhaustive enumeration of quoted-character literal pairs in every statement position; atheris/libFuzzer campaign with the oracle in the target'
RULE = ('Expressions are drawn recursively from the grammar (depth<=5, 7 literal notations, labels, 10 binary '
        'operators, unary minus, BYTE0..9/LSB, redundant parentheses, 4 spacing styles) and rendered with minimal '
        'parentheses. Non-trivial = the expression has operators from >=2 precedence levels, or a same-level '
        'left-nested chain with a non-commutative/mixed operator, or a unary minus that is the left operand of a '
        'binary operator, or BYTEn/LSB together with a negation; malformed token sequences (recogniser says not '
        'well-formed) count as non-trivial too. Distinct = distinct SHA-1 of the canonical case JSON.')
ASSUMPTIONS = [
    'Cases where ordinary arithmetic is undefined or float-representation dependent are generated but not asserted '
    '(zero divisor, % with a negative operand, shift count outside 0..256 or of a negative value, bitwise/BYTEn on a '
    'non-integer, intermediates after / or % not exactly representable as IEEE double); they are counted in '
    'class_histogram as undefined:*',
    'where the reference names no value because the property does not fix one (remainder with a negative operand, shift of '
    'a negative value) a metamorphic relation is asserted instead: the tool gives the expression the same value when a '
    'computed operand (an exact quotient, a product, a name) is replaced by the plain number it equals',
    'trailing-H hexadecimal literals are written with a leading decimal digit (the documented form, e.g. 08FH)',
    'the modulo operator is always followed by a space (a % directly followed by 0/1 is the binary-literal prefix)',
    'label names are drawn from a pool that cannot be read as a number, function or keyword',
]
BUDGET = {'quick': 40000, 'thorough': 1500000}

LABELS = {'alpha': 5, 'beta': 0x1234, 'gamma_1': 255, 'zed': 0, 'omega': (1 << 40) + 3, 'kappa': 1}
TOKEN_ALPHABET = ['+', '-', '*', '/', '%', '<<', '>>', '&', '|', '^', '(', ')', 'LSB(', 'BYTE0(', 'BYTE3(',
                  '7', '$1f', 'alpha', 'beta', '%101', '0x10', '12H', "'q'", '0']
# characters / words that belong to no expression token: a sequence containing one is never well-formed
FOREIGN = ['!', '#', '@', '{', '}', '[', ']', '~', '?', '=', '==', ':', '\\', '`', '"x"', '5.5', '1e3', '&&', '||', '**', '$', "''", '0b101', '0o17', '1_000', '0x_ff', '1e', '0d9']

ISA = {
    'general': {'address_size': 16, 'endian': 'little', 'registers': ['a']},
    'operand_sets': {'q': {'operand_values': {'v': {'type': 'numeric', 'argument': {'size': 64, 'byte_align': True}}}}},
    'instructions': {'nop': {'bytecode': {'value': 0, 'size': 8}},
                     'ldv': {'bytecode': {'value': 0xA5, 'size': 8},
                             'operands': {'count': 1, 'operand_sets': {'list': ['q']}}}},
}
ISA_TEXT = json.dumps(ISA)


_EXPR_CLI = exprs.expressions(labels=LABELS, max_depth=5, chars=exprs.SAFE_CHARS)
_EXPR_API = exprs.expressions(labels=LABELS, max_depth=5,
                              chars=[c for c in map(chr, range(32, 127)) if c not in "'\\"])
_EXPR_SMALL = exprs.expressions(labels=LABELS, max_depth=3)
# operands of conditional directives: the comparison operators are not part of an operand
_EXPR_COND = exprs.expressions(labels=LABELS, max_depth=3, max_value=1000, allow_shift=False, div_bias=True,
                               chars=[c for c in exprs.SAFE_CHARS if c not in '<>=!'])


@st.composite
def _cases(draw, tier):
    layer = draw(st.sampled_from(['api'] * 30 + ['cli', 'cli', 'cond', 'cond']))
    if layer == 'cond':
        return {'kind': 'wf', 'layer': 'cli', 'ast': draw(_EXPR_COND), 'sp': draw(st.sampled_from(['', ' ', ' '])),
                'form': draw(st.sampled_from([3, 4, 8, 8]))}
    if draw(st.integers(0, 59)) == 0:
        # a lone literal in a spelling that only other languages have
        return {'kind': 'tok', 'layer': 'cli', 'tokens': [draw(st.sampled_from(['0b101', '0o17', '1_000', '0x_ff', '0B11', '0O7', '1e3', '0x1p3']))],
                'form': draw(st.integers(0, 2))}
    if draw(st.integers(0, 39)) == 0:
        # a non-whole quotient of two literals next to a name, as an origin (evaluated more than once by the tool)
        ast = ['bin', draw(st.sampled_from(['*', '+'])), ['bin', '/', ['num', draw(st.sampled_from([7, 15, 29, 101])), 'dec'], ['num', 2, 'dec']],
               ['bin', '/', ['lab', draw(st.sampled_from(['alpha', 'gamma_1']))], ['num', 2, 'dec']]]
        return {'kind': 'wf', 'layer': 'cli', 'ast': ast, 'sp': ' ', 'form': 6}
    if draw(st.integers(0, 19)) == 0:
        # a quotient that is large and not whole, divided again: the real quotient, truncated only at the very end
        big = draw(st.integers(1 << 29, (1 << 50) - 1))
        ast = ['bin', '/', ['bin', '/', ['num', big, draw(st.sampled_from(['dec', 'hex$']))],
                            ['num', draw(st.sampled_from([1, 1, 2, 4])), 'dec']], ['num', draw(st.sampled_from([2, 4, 8, 16])), 'dec']]
        if draw(st.booleans()):
            ast = ['bin', draw(st.sampled_from(['+', '-', '*'])), ast, ['num', draw(st.integers(0, 3)), 'dec']]
        return {'kind': 'wf', 'layer': layer, 'ast': ast, 'sp': ' ', 'form': draw(st.integers(0, 2))}
    if draw(st.integers(0, 14)) == 0:
        # a remainder or shift whose operands are themselves computed (an exact quotient, a product, a difference, a
        # name) and may be negative: the value depends on the operands' values only, not on how they were obtained
        def operand(neg_ok=True):
            k = draw(st.integers(1, 40))
            sign = draw(st.sampled_from([1, 1, -1])) if neg_ok else 1
            d = draw(st.sampled_from([1, 2, 3, 4, 7, 16]))
            mag = ['num', k * d, draw(st.sampled_from(['dec', 'hex$']))]
            if sign < 0:
                mag = draw(st.sampled_from([['par', ['bin', '-', ['num', 0, 'dec'], mag]], ['neg', mag]]))
            how = draw(st.sampled_from(['quot', 'quot', 'quot', 'prod', 'plain']))
            if how == 'quot':
                return ['bin', '/', mag, ['num', d, 'dec']]
            if how == 'prod':
                return ['par', ['bin', '*', ['bin', '/', mag, ['num', d, 'dec']], ['num', 1, 'dec']]]
            return mag
        op = draw(st.sampled_from(['%', '%', '%', '%', '>>', '<<']))
        right = operand() if op == '%' else ['num', draw(st.integers(0, 5)), 'dec']
        ast = ['bin', op, operand(), right]
        wrap = draw(st.integers(0, 3))
        if wrap == 1:
            ast = ['bin', draw(st.sampled_from(['+', '-', '*'])), ast, ['num', draw(st.integers(0, 9)), 'dec']]
        elif wrap == 2:
            ast = ['byte', draw(st.integers(0, 1)), ast]
        return {'kind': 'wf', 'layer': layer if layer in ('api', 'cli') else 'cli', 'ast': ast, 'sp': draw(st.sampled_from(['', ' '])),
                'form': draw(st.integers(0, 2))}
    if draw(st.integers(0, 9)) < 7:
        ast = draw(_EXPR_CLI if layer == 'cli' else _EXPR_API)
        return {'kind': 'wf', 'layer': layer, 'ast': ast, 'sp': draw(st.sampled_from(['', ' ', ' ', '  ', '\t'])),
                'form': draw(st.integers(0, 6))}
    ast = draw(_EXPR_SMALL)
    toks = exprs.tokens_of(ast)
    nmut = draw(st.integers(1, 2))
    for _ in range(nmut):
        kind = draw(st.sampled_from(['del', 'dup', 'ins', 'swap', 'rep', 'foreign']))
        if not toks:
            kind = 'ins'
        i = draw(st.integers(0, max(0, len(toks) - 1)))
        if kind == 'del':
            toks = toks[:i] + toks[i + 1:]
        elif kind == 'dup':
            toks = toks[:i + 1] + toks[i:]
        elif kind == 'foreign':
            j = draw(st.integers(0, len(toks)))
            toks = toks[:j] + [draw(st.sampled_from(FOREIGN))] + toks[j:]
        elif kind == 'ins':
            j = draw(st.integers(0, len(toks)))
            toks = toks[:j] + [draw(st.sampled_from(TOKEN_ALPHABET))] + toks[j:]
        elif kind == 'rep':
            toks = toks[:i] + [draw(st.sampled_from(TOKEN_ALPHABET))] + toks[i + 1:]
        elif len(toks) >= 2:
            i = min(i, len(toks) - 2)
            toks = toks[:i] + [toks[i + 1], toks[i]] + toks[i + 2:]
    return {'kind': 'tok', 'layer': layer, 'tokens': toks, 'form': draw(st.integers(0, 3))}


def strategy(tier):
    return _cases(tier)


_API = None


def _api():
    global _API
    if _API is None:
        # the expression is evaluated inside this worker process: a change that makes an evaluation explode (a shift by
        # an astronomically large count) must end in a MemoryError here, not in an exhausted machine
        import resource
        resource.setrlimit(resource.RLIMIT_AS, (6 << 30, 6 << 30))
        runner._import_target()
        from bespokeasm.expression import parse_expression
        from bespokeasm.assembler.label_scope import GlobalLabelScope
        from bespokeasm.assembler.line_identifier import LineIdentifier
        lid = LineIdentifier(1, 'c07')
        scope = GlobalLabelScope(set())
        for k, v in LABELS.items():
            scope.set_label_value(k, v, lid)
        _API = (parse_expression, scope, lid)
    return _API


class _TooLong(BaseException):
    pass


def _too_long(signum, frame):
    raise _TooLong()


def _run_api(text):
    parse_expression, scope, lid = _api()
    import signal
    old = signal.signal(signal.SIGALRM, _too_long)
    signal.setitimer(signal.ITIMER_REAL, 3.0)         # microseconds are normal; big-number arithmetic checks for signals
    try:
        return ('value', parse_expression(lid, text).get_value(scope, lid))
    except _TooLong:
        return ('timeout', 'in-process evaluation exceeded 3 s')
    except (Exception, SystemExit) as e:
        return ('rejected', type(e).__name__)
    finally:
        signal.setitimer(signal.ITIMER_REAL, 0)
        signal.signal(signal.SIGALRM, old)


def _run_cond(text, form, want):
    """The expression as an operand of #if: names are preprocessor symbols here.  -> (matches, source, result)"""
    lines = [f'#define {k} {v}' for k, v in LABELS.items()]
    if form == 3:
        lines.append(f'#if {text} == {want}')
        expect = 1
    elif form == 8:
        # compared as whole numbers: the truncated value is not at or beyond the next whole number away from zero
        lines.append(f'#if {text} >= {want + 1}' if want >= 0 else f'#if {text} <= {want - 1}')
        expect = 2
    else:
        lines.append(f'#if {text}')
        expect = 1 if want != 0 else 2
    lines += ['.byte 1', '#else', '.byte 2', '#endif']
    src = '\n'.join(lines) + '\n'
    res = runner.run_forked(['compile', '-c', 'isa.json', '-o', 'out.bin', 'p.asm'], {'isa.json': ISA_TEXT, 'p.asm': src})
    if res.klass == 'accepted':
        return ('value', res.outputs.get('out.bin') == bytes([expect])), src, res
    return (res.klass, res.exit_code), src, res


def _run_cli(text, form):
    lines = [f'{k} = {v}' for k, v in LABELS.items()]
    # a constant spelled exactly like a literal of the expression (b-binary, or hexadecimal with trailing H and a leading
    # letter) changes nothing: the literal still denotes its value
    for w in sorted(set(re.findall(r'(?<![\w$%.])(?:b[01]+|[A-Fa-f][0-9A-Fa-f]*H)\b', text)))[:2]:
        if w not in LABELS and not re.search(r'[\'"]', text):
            lines.append(f'{w} = 77')
    if form == 0 and not text.lstrip().startswith('"'):
        lines.append(f'.8byte {text}')
    elif form == 1:
        # as a constant: the constant has the (whole) value of its expression wherever it is used afterwards
        lines += [f'v_res = {text}', '.8byte v_res', '.8byte v_res * 2 + v_res']
    elif form == 2:
        lines.append(f'.8byte 0 + ({text})')
    elif form == 5:
        lines.append(f'ldv {text}')      # as the operand of an instruction
    elif form == 7:
        lines += [f'.org {text}', '.byte $5a']      # as an origin (the one directive that evaluates its expression repeatedly)
    else:
        lines += [f'v_res = {text}', '.8byte v_res']
    src = '\n'.join(lines) + '\n'
    if form == 7:
        # the byte after the origin is looked for in the whole 64 KiB image
        res = runner.run_forked(['compile', '-c', 'isa.json', '-o', 'out.bin', '-e', '65535', 'p.asm'], {'isa.json': ISA_TEXT, 'p.asm': src})
        img = res.outputs.get('out.bin', b'')
        if res.klass == 'accepted' and img.count(b'\x5a') == 1 and len(img) == 65536:
            return ('value', img.index(b'\x5a')), src, res
        if res.klass == 'accepted':
            return ('value', None), src, res
        return (res.klass, res.exit_code), src, res
    res = runner.run_forked(['compile', '-c', 'isa.json', '-o', 'out.bin', 'p.asm'],
                            {'isa.json': ISA_TEXT, 'p.asm': src})
    if form == 5 and res.klass == 'accepted' and len(res.outputs.get('out.bin', b'')) == 9 and res.outputs['out.bin'][0] == 0xA5:
        return ('value', int.from_bytes(res.outputs['out.bin'][1:], 'little')), src, res
    if res.klass == 'accepted' and 'out.bin' in res.outputs and len(res.outputs['out.bin']) == 8:
        return ('value', int.from_bytes(res.outputs['out.bin'], 'little')), src, res
    if form == 1 and res.klass == 'accepted' and len(res.outputs.get('out.bin', b'')) == 16:
        v = int.from_bytes(res.outputs['out.bin'][:8], 'little')
        again = int.from_bytes(res.outputs['out.bin'][8:], 'little')
        if again != (3 * v) % (1 << 64):
            return ('value', f'{v} where the constant is defined, but constant * 2 + constant = {again}'), src, res
        return ('value', v), src, res
    if res.klass == 'accepted':
        return ('value', None), src, res
    return (res.klass, res.exit_code), src, res


def execute(case, ctx):
    if case.get('kind') == 'lattice':
        from .. import quotelattice as Q
        got, r = Q.assemble([case['line']])
        fs = []
        if got != bytes(case['bytes']):
            fs.append(Finding('C07/quoted-character-literal-wrong-or-rejected',
                              {'line': case['line'], 'expected': bytes(case['bytes']).hex(),
                               'got': got.hex() if got is not None else r.klass, 'run': r.brief()}))
        return Outcome(fs, True, ['lattice-replay'], 1)
    if case.get('kind') == 'fuzz':
        got = _run_api(case['text'])
        return Outcome([], False, ['fuzz-replay:' + str(got)], 1)
    layer = case['layer']
    findings = []
    if case['kind'] == 'wf':
        ast = case['ast']
        text = exprs.render(ast, case['sp'])
        classes = [f'layer:{layer}', 'kind:wellformed']
        try:
            want = exprs.value_of(ast, LABELS)
        except exprs.Undefined as u:
            classes.append(f'undefined:{u}')
            flat, changed = exprs.flatten(ast, LABELS)
            if not changed or str(u) not in ('modulo with a negative operand', 'shift of a negative value') or case['form'] > 2:
                return Outcome(classes=classes, evals=0)
            # the reference names no value here (the property does not fix the sign of such a remainder), but whatever
            # the value is, it is the same when a computed operand is replaced by the plain number it equals
            text2 = exprs.render(flat, ' ')
            if layer == 'api':
                g1, g2 = _run_api(text), _run_api(text2)
                detail = {'text': text, 'same_operand_values_written_plainly': text2, 'got': list(g1), 'got_plain': list(g2)}
            else:
                g1, src, res = _run_cli(text, 1)
                g2, src2, res2 = _run_cli(text2, 1)
                detail = {'text': text, 'same_operand_values_written_plainly': text2, 'got': list(g1), 'got_plain': list(g2),
                          'source': src, 'run': res.brief()}
            classes.append('metamorphic:computed-operand-vs-plain-number')
            if g1[0] == 'value' and g2[0] == 'value' and g1[1] is not None and g2[1] is not None:
                classes.append('metamorphic:both-valued')
                if g1[1] != g2[1]:
                    findings.append(Finding('C07/value-depends-on-how-an-operand-was-computed', detail))
                return Outcome(findings, True, classes, 2, sample={'text': text, 'plain': text2, 'layer': layer, 'value': g1[1]})
            return Outcome(findings, False, classes, 2)
        feats = exprs.features(ast)
        if layer == 'api':
            got = _run_api(text)
            detail = {'text': text, 'expected': want, 'got': list(got)}
            cmpwant = want
        elif case['form'] in (3, 4, 8) and layer == 'cli' and 'sp' in case and not any(c in text for c in '<>=!') and text.strip():
            # as an operand of a conditional directive: evaluated by the preprocessor, compared as an integer
            got, src, res = _run_cond(text.strip(), case['form'], want)
            detail = {'text': text, 'expected': want, 'got': list(got), 'source': src, 'run': res.brief()}
            cmpwant = True
            classes.append('evaluated-in-a-condition')
        else:
            form = case['form']
            if form >= 3:
                # as an origin where the value is an address, as an instruction operand where it fits the 64-bit field,
                # else as a constant
                if case['form'] == 6 and 0 <= want < 65000 and text.strip():
                    form = 7
                    classes.append('evaluated-as-origin')
                else:
                    form = 5 if -(1 << 63) <= want < (1 << 64) and text.strip() else 1
                if form == 5:
                    classes.append('evaluated-as-instruction-operand')
            got, src, res = _run_cli(text, form)
            detail = {'text': text, 'expected_mod_2_64': want % (1 << 64), 'got': list(got), 'source': src,
                      'run': res.brief()}
            cmpwant = want % (1 << 64)
        if got[0] == 'timeout':
            findings.append(Finding('C07/timeout', detail))
        elif got[0] != 'value':
            findings.append(Finding('C07/wellformed-rejected' + ('/with-unary-minus' if 'neg' in feats else ''), detail))
        elif got[1] != cmpwant:
            if 'neg' in feats:
                sig = 'C07/wrong-value/with-unary-minus'
            elif 'byteN' in feats:
                sig = 'C07/wrong-value/with-byte-extraction'
            else:
                sig = 'C07/wrong-value/binary-operators-only'
            findings.append(Finding(sig, detail))
        classes += sorted(f for f in feats if f.startswith(('lit:', 'lvl:')) or f in
                          ('neg', 'byteN', 'same-level-chain', 'neg-then-binary', 'redundant-parens', 'label'))
        return Outcome(findings, exprs.nontrivial(ast), classes, 1,
                       sample={'text': text, 'expected': want, 'layer': layer})
    toks = case['tokens']
    text = ' '.join(toks)
    if exprs.well_formed(toks):
        return Outcome(classes=[f'layer:{layer}', 'kind:mutation-still-wellformed'], evals=0)
    if layer == 'api':
        got = _run_api(text)
        detail = {'text': text, 'got': list(got)}
    else:
        # directly after a data directive a text that begins with a quote may be a (well-formed) string instead
        form = 1 if case['form'] == 0 and text.lstrip().startswith(("'", '"')) else case['form']
        if form == 3 and (any(c in text for c in '<>=!') or not text.strip()):
            form = 1          # comparison operators belong to the condition syntax, not to the operand
        if form == 3:
            # as the (bare) operand of a conditional directive: accepted means it was given a truth value
            lines = [f'#define {k} {v}' for k, v in LABELS.items()] + [f'#if {text}', '.byte 1', '#else', '.byte 2', '#endif']
            src = '\n'.join(lines) + '\n'
            res = runner.run_forked(['compile', '-c', 'isa.json', '-o', 'out.bin', 'p.asm'], {'isa.json': ISA_TEXT, 'p.asm': src})
            got = ('value', res.outputs.get('out.bin', b'').hex()) if res.klass == 'accepted' else (res.klass, res.exit_code)
        else:
            got, src, res = _run_cli(text, form)
        detail = {'text': text, 'got': list(got), 'source': src, 'run': res.brief()}
    if got[0] == 'value':
        findings.append(Finding('C07/malformed-given-a-value', detail))
    elif got[0] == 'timeout':
        findings.append(Finding('C07/timeout', detail))
    return Outcome(findings, True, [f'layer:{layer}', 'kind:malformed'], 1,
                   sample={'malformed_text': text, 'outcome': list(got), 'layer': layer})

LEVEL_TEXT = ('Exploration: tens of thousands (quick) to millions (thorough) of grammar-generated expressions and '
              'malformed token sequences are decided against an exact rational evaluator / an independent recogniser, '
              'through the parser API and through the real CLI. Precedence, associativity, literal notations, byte '
              'extraction and rejection are statements about every tree shape; sampling the grammar densely at '
              'depth<=5 is the level this technique can give - it shows no counterexample exists among the explored '
              'shapes, not absence.')
LEVEL_NOTE = ('Trusted: the reference evaluator in bvf/exprs.py (Fractions, written from the property text), the '
              'recogniser, Hypothesis. API layer imports bespokeasm.expression.parse_expression and '
              'GlobalLabelScope; the CLI layer only uses the command line. Undefined/float-ambiguous cases are not '
              'asserted (see assumptions in evidence).')


def _fuzz_phase(tier, seed):
    """Coverage-guided campaign (atheris/libFuzzer) with the same oracle inside the target; empty corpus."""
    import os
    import shutil
    import subprocess
    import tempfile
    here = os.path.dirname(os.path.dirname(os.path.dirname(os.path.abspath(__file__))))
    if not os.path.isdir(os.path.join(here, '.deps', 'atheris')):
        return {'report': {'atheris': 'not installed (setup_cmd installs it into .deps); campaign skipped'}}
    shards, secs = (16, 90) if tier == 'thorough' else (4, 6)
    root = tempfile.mkdtemp(prefix='bvf-fuzz-', dir=runner.scratch_root())
    procs = []
    try:
        for k in range(shards):
            out = os.path.join(root, f's{k}')
            os.makedirs(os.path.join(out, 'corpus'))
            cmd = [runner.PYTHON, os.path.join(here, 'bvf', 'fuzz', 'expr_fuzz.py'), out, os.path.join(out, 'corpus'),
                   f'-max_total_time={secs}', f'-seed={(seed * 1000 + k) % (2 ** 31) + 1}', '-rss_limit_mb=3000', '-timeout=20',
                   f'-artifact_prefix={out}/', '-print_final_stats=1', '-verbosity=0']
            procs.append((out, subprocess.Popen(cmd, cwd=out, stdout=subprocess.DEVNULL, stderr=subprocess.PIPE,
                                                env=dict(os.environ, PYTHONHASHSEED='0'))))
        execs = wf = mal = 0
        findings = []
        crashes = 0
        for out, p in procs:
            try:
                _, err = p.communicate(timeout=secs + 120)
            except subprocess.TimeoutExpired:
                p.kill()
                err = b''
            m = __import__('re').search(rb'number_of_executed_units: (\d+)', err or b'')
            if m:
                execs += int(m.group(1))
            try:
                st_ = json.load(open(os.path.join(out, 'stats.json')))
                wf += st_['wellformed']
                mal += st_['malformed']
            except Exception:
                pass
            crashes += len([f for f in os.listdir(out) if f.startswith(('crash-', 'oom-', 'timeout-'))])
            fp = os.path.join(out, 'findings.jsonl')
            if os.path.exists(fp):
                for line in open(fp):
                    d = json.loads(line)
                    findings.append((d['signature'], {'kind': 'fuzz', 'text': d['text']}, d))
    finally:
        shutil.rmtree(root, ignore_errors=True)
    rep = {'engine': 'atheris 3.1 / libFuzzer', 'shards': shards, 'seconds_per_shard': secs, 'executions': execs,
           'wellformed_at_least': wf, 'malformed_at_least': mal, 'libfuzzer_artifacts(crash/oom/timeout)': crashes,
           'corpus': 'empty'}
    return {'evals': execs, 'cases': execs, 'findings': findings, 'report': rep}


def _lattice_phase(tier):
    """Every quoted-character literal next to every tricky one (quote, semicolon, comma, backslash ...) in every statement
    position, without comments: the bytes are the character codes (exhaustive over bvf/quotelattice.values)."""
    from .. import quotelattice as Q
    jobs = Q.values(tier)
    runs, bad = Q.survey(jobs)
    findings = [('C07/quoted-character-literal-wrong-or-rejected', {'kind': 'lattice', 'line': j['line'], 'bytes': j['bytes']}, d)
                for j, d in bad]
    return {'evals': len(jobs), 'cases': len(jobs), 'findings': findings,
            'report': {'statements_enumerated': len(jobs), 'assembler_runs': runs, 'exhaustive': True,
                       'family': 'ldi X / .byte X / put2 X, Y / .byte X, Y / label: ldi X over pairs of quoted characters'},
            'samples': [{'lattice_statement': j['line'], 'expected_bytes': bytes(j['bytes']).hex()} for j in jobs[:2]]}


def extra_phase(tier, seed):
    a = _lattice_phase(tier)
    b = _fuzz_phase(tier, seed)
    return {'evals': a['evals'] + b.get('evals', 0), 'cases': a['cases'] + b.get('cases', 0),
            'findings': a['findings'] + b.get('findings', []),
            'report': {'quoted_character_lattice': a['report'], 'coverage_guided': b.get('report', {})},
            'samples': a['samples']}

"""C06 - label references resolve only within their lexical scope."""
from __future__ import annotations

import copy
import re

from hypothesis import strategies as st

from .. import isagen, proggen as G, refmodel as R, runner
from ..driver import Finding, Outcome
from .c02 import run_layout_case

ID = 'C06'
LEVEL = 'exploration'
TECHNIQUE = ('property-based testing (Hypothesis): generated arrangements of same-named global/file/local labels over '
             '1..3 included files with region-resetting directives, references observed as data probes, plus '
             'single-fault variants (duplicate, invisible reference, orphan local, register/keyword label); exit status '
             'and probe bytes compared with an independent scope resolver')
RULE = ('2..3 base names are each used as global, _file and .local label in several regions and files; every region '
        'gets probes (.2byte/.4byte name) placed before and after the definitions; origins/zone switches reset '
        'regions; includes are placed inside open regions. A valid program is then optionally given exactly one '
        'fault from the catalogue. Non-trivial = a name defined in at least two distinct scopes is referenced, or the '
        'program is fault-injected. Distinct = SHA-1 of the case JSON.')
ASSUMPTIONS = [
    'label names cannot be read as numbers, functions or mnemonics; keywords are only used by the keyword-label fault',
    'constants refer only to earlier constants',
]
BUDGET = {'quick': 3200, 'thorough': 200000}
LEVEL_TEXT = ('Exploration over arrangements of definitions and uses with an independent resolver; same-named labels '
              'in different regions/files make a wrong resolution visible as a wrong probe value, fault injection '
              'makes a missing rejection visible as exit status 0.')
LEVEL_NOTE = 'Trusted: bvf/refmodel.py Layouter scope tables (global / per file / per region).'

BASES = ['aa', 'lp', 'tmp']
HEADS = ['start', 'main', 'sub1', 'sub2', 'fin', 'isr', 'tbl', 'vec', 'top', 'mid']
FAULTS = ['dup-local', 'dup-file', 'dup-global', 'dup-const', 'cross-region-ref', 'cross-file-ref', 'undefined-global',
          'orphan-local', 'ref-after-org', 'register-label', 'keyword-label', 'local-keyword-label',
          'register-named-predefined-used', 'local-across-renamed-zone']


def probe(name, off=0):
    e = ['lab', name] if not off else ['bin', '+', ['lab', name], ['num', off, 'dec']]
    return {'t': 'data', 'd': '.2byte', 'vals': [e]}


@st.composite
def _file_body(draw, heads, globals_all, file_labels, depth, files_left, marker):
    """-> items of one file. heads: global head names available to define in this file."""
    items = []
    nreg = draw(st.integers(1, 3))
    for r in range(nreg):
        if not heads:
            break
        head = heads.pop(0)
        own_region = False
        if draw(st.integers(0, 1)) == 0 and file_labels:
            # a file label can open a region as well (the same name may do so in every file)
            fl = draw(st.sampled_from(sorted(file_labels)))
            file_labels.discard(fl)
            items.append({'t': 'label', 'name': fl, 'defines': fl})
            own_region = draw(st.booleans())
        if own_region:
            heads.insert(0, head)       # the region that follows belongs to the file label alone
        else:
            items.append({'t': 'label', 'name': head})
        locs = draw(st.lists(st.sampled_from(['.' + b for b in BASES]), min_size=0, max_size=3, unique=True))
        body = [{'t': 'label', 'name': n} for n in locs]
        for _ in range(draw(st.integers(1, 4))):
            visible = list(globals_all) + locs + sorted(marker['file_defined']) * 2
            body.insert(draw(st.integers(0, len(body))), probe(draw(st.sampled_from(visible)), draw(st.sampled_from([0, 0, 1]))))
        for _ in range(draw(st.integers(0, 2))):
            marker['n'] += 1
            body.insert(draw(st.integers(0, len(body))), {'t': 'data', 'd': '.byte', 'vals': [['num', marker['n'] & 0xFF, 'hex$']]})
        if draw(st.integers(0, 3)) == 0:
            # a constant, global or file-scoped, in the middle of a region: it is no label and leaves the region open
            marker['nk'] = marker.get('nk', 0) + 1
            kname = draw(st.sampled_from(['_kf', 'kg'])) + str(marker['nk']) + ('' if depth == 0 else 'i' * depth + str(len(files_left)))
            body.insert(draw(st.integers(0, len(body))), {'t': 'const', 'name': kname, 'e': ['num', draw(st.sampled_from([0, 0, 1, 7, 99])), 'dec'],
                                                           'eq': draw(st.sampled_from(['=', 'EQU']))})
        if draw(st.integers(0, 3)) == 0:
            # a non-local label in a block that is not compiled: it defines nothing and opens no region
            j = draw(st.integers(0, len(body)))
            body[j:j] = [{'t': 'if', 'lhs': ['num', 0, 'dec']}, {'t': 'label', 'name': draw(st.sampled_from(['ghost', '_ghost', head]))},
                         {'t': 'endif'}]
        if files_left and depth < 2 and draw(st.integers(0, 2)) == 0:
            fname = files_left.pop(0)
            sub_marker = {'n': marker['n'], 'file_defined': set('_' + b for b in BASES if draw(st.booleans()))}
            sub_fl = set(sub_marker['file_defined'])
            sub = draw(_file_body(heads, globals_all, sub_fl, depth + 1, files_left, sub_marker))
            for n in sorted(sub_fl):      # file labels not yet placed: define them at the end of that file
                sub.append({'t': 'label', 'name': n})
                sub.append({'t': 'data', 'd': '.byte', 'vals': [['num', 0x99, 'hex$']]})
            marker['n'] = sub_marker['n']
            body.insert(draw(st.integers(0, len(body))), {'t': 'include', 'file': fname, 'items': sub})
        items += body
        if heads and draw(st.integers(0, 3)) == 0:
            # a region opened inside the taken branch of a conditional block stays open after the block
            h2 = heads.pop(0)
            marker['n'] += 1
            loc = draw(st.sampled_from(['.' + b for b in BASES]))
            items += [{'t': 'if', 'lhs': ['num', 1, 'dec']}, {'t': 'label', 'name': h2},
                      {'t': 'data', 'd': '.byte', 'vals': [['num', marker['n'] & 0xFF, 'hex$']]},
                      {'t': 'else'}, {'t': 'label', 'name': 'ghost'}, {'t': 'endif'},
                      {'t': 'label', 'name': loc}, probe(loc), {'t': 'data', 'd': '.byte', 'vals': [['num', 0x33, 'hex$']]}]
        if draw(st.integers(0, 4)) == 0:
            items.append({'t': 'memzone', 'zone': 'GLOBAL'})
            items.append(probe(draw(st.sampled_from(list(globals_all)))))
    return items


@st.composite
def _cases(draw, tier):
    cfg = draw(G.layout_isa(address_sizes=(16,), zones=False))
    cfg['general'].pop('origin', None)
    nheads = draw(st.integers(2, 7))
    heads = draw(st.permutations(HEADS))[:nheads]
    # the base names are also global labels (so that `aa`, `_aa` and `.aa` coexist)
    gl_bases = [b for b in BASES if draw(st.booleans())]
    globals_all = list(heads) + gl_bases
    files_left = ['inc1.asm', 'inc2.asm'][:draw(st.integers(0, 2))]
    marker = {'n': 0, 'file_defined': set('_' + b for b in BASES if draw(st.booleans()))}
    fl = set(marker['file_defined'])
    heads_q = list(heads)
    items = draw(_file_body(heads_q, globals_all, fl, 0, files_left, marker))
    for n in sorted(fl):
        items.append({'t': 'label', 'name': n})
        items.append({'t': 'data', 'd': '.byte', 'vals': [['num', 0x77, 'hex$']]})
    for h in heads_q + gl_bases:      # remaining planned globals
        items.append({'t': 'label', 'name': h})
        items.append({'t': 'data', 'd': '.byte', 'vals': [['num', 0x55, 'hex$']]})
    if draw(st.integers(0, 2)) == 0:
        # two short regions whose every line begins with a label (they can stand on one source line): the second one
        # defines the same local name again, or uses it without defining it (not visible there: rejected)
        items += [{'t': 'label', 'name': 'tg1'}, {'t': 'label', 'name': '.tq'}, {'t': 'data', 'd': '.byte', 'vals': [['num', 7, 'dec']]},
                  {'t': 'label', 'name': 'tg2'}]
        if draw(st.booleans()):
            items.append({'t': 'label', 'name': '.tq'})
        items.append(probe('.tq'))
    if draw(st.booleans()):
        items.insert(0, {'t': 'const', 'name': 'kval', 'e': ['num', draw(st.integers(0, 500)), 'dec']})
        items.append(probe('kval'))
    fault = draw(st.sampled_from([None, None, None] + FAULTS))
    if fault == 'register-named-predefined-used':
        # the ISA predefines a constant or data block under a register's name: using it as a number is still rejected
        reg = draw(st.sampled_from(['a', 'x', 'hl']))
        pre = cfg.setdefault('predefined', {})
        if draw(st.booleans()):
            pre.setdefault('constants', []).append({'name': reg, 'value': draw(st.integers(0, 300))})
        else:
            pre.setdefault('data', []).append({'name': reg, 'address': 0x7000, 'value': 1, 'size': 2})
        items = list(items)
        items.insert(draw(st.integers(0, len(items))), probe(reg, draw(st.sampled_from([0, 1]))))
    elif fault == 'local-across-renamed-zone':
        # naming the zone that is already selected is still a zone directive: it ends the local-label region
        cfg.setdefault('predefined', {}).setdefault('memory_zones', []).append({'name': 'ZQ', 'start': 0x4000, 'end': 0x4FFF})
        how = draw(st.sampled_from(['memzone', 'org']))
        again = {'t': 'memzone', 'zone': 'ZQ'} if how == 'memzone' else {'t': 'org', 'e': ['num', 0x100, 'hex$'], 'zone': 'ZQ'}
        tail = [{'t': 'memzone', 'zone': 'ZQ'}, {'t': 'label', 'name': 'zq_head'}, {'t': 'label', 'name': '.zloc'},
                {'t': 'data', 'd': '.byte', 'vals': [['num', 1, 'dec']]}, again]
        tail += draw(st.sampled_from([[probe('.zloc')], [{'t': 'label', 'name': '.orphan2'}, {'t': 'data', 'd': '.byte', 'vals': [['num', 2, 'dec']]}]]))
        items = list(items) + tail
    elif fault:
        items = inject(draw, items, fault)
        if items is None:
            return {'skip': 'fault not applicable to this program'}
    return {'isa': cfg, 'items': items, 'fault': fault, 'lo': 0, 'fill': 0, 'join_labels': draw(st.sampled_from([0, 0, 0, 0, 1, 2])),
            'mute_all': bool(fault) and draw(st.integers(0, 3)) == 0}


def _files(items, name='main.asm', out=None):
    out = {} if out is None else out
    out[name] = items
    for it in items:
        if it['t'] == 'include':
            _files(it['items'], it['file'], out)
    return out


class _Items(list):
    """A file's item list whose insert() never lands inside a block that is not compiled (the tool still parses such
    lines, and the properties do not speak about errors there)."""

    def insert(self, pos, it):
        depth = 0
        inside = []
        for i, x in enumerate(self):
            inside.append(depth > 0)
            if x['t'] in ('if', 'ifdef', 'ifndef'):
                depth += 1
            elif x['t'] == 'endif':
                depth -= 1
        inside.append(False)
        pos = max(0, min(pos, len(self)))
        while pos < len(self) and inside[pos]:
            pos += 1
        list.insert(self, pos, it)


def inject(draw, items, fault):
    items = copy.deepcopy(items)

    def wrap(its):
        out = _Items(its)
        for k, it in enumerate(out):
            if it['t'] == 'include':
                it['items'] = wrap(it['items'])
        return out
    items = wrap(items)
    files = _files(items)
    fnames = sorted(files)
    its = files[draw(st.sampled_from(fnames))]
    labels = [(i, it['name']) for i, it in enumerate(its) if it['t'] == 'label']

    def regions(seq):
        """[(head index, end index)] of regions inside one file's own item list."""
        out, start = [], None
        for i, it in enumerate(seq):
            if it['t'] == 'label' and not it['name'].startswith('.'):
                if start is not None:
                    out.append((start, i))
                start = i
            elif it['t'] in ('org', 'memzone'):
                if start is not None:
                    out.append((start, i))
                start = None
        if start is not None:
            out.append((start, len(seq)))
        return out
    regs = regions(its)
    if fault == 'dup-local':
        cands = [(a, b, [it['name'] for it in its[a:b] if it['t'] == 'label' and it['name'].startswith('.')]) for a, b in regs]
        cands = [c for c in cands if c[2]]
        if not cands:
            return None
        a, b, names = draw(st.sampled_from(cands))
        its.insert(draw(st.integers(a + 1, b)), {'t': 'label', 'name': draw(st.sampled_from(names))})
    elif fault == 'dup-file':
        names = [n for _, n in labels if n.startswith('_')]
        if not names:
            return None
        its.insert(draw(st.integers(0, len(its))), {'t': 'label', 'name': draw(st.sampled_from(names))})
    elif fault == 'dup-global':
        allg = [it['name'] for f in files.values() for it in f if it['t'] == 'label' and it['name'][0] not in '._']
        its.insert(draw(st.integers(0, len(its))), {'t': 'label', 'name': draw(st.sampled_from(allg))})
    elif fault == 'dup-const':
        allg = [it['name'] for f in files.values() for it in f if it['t'] == 'label' and it['name'][0] not in '._']
        its.insert(draw(st.integers(0, len(its))), {'t': 'const', 'name': draw(st.sampled_from(allg)), 'e': ['num', 3, 'dec']})
    elif fault == 'cross-region-ref':
        if len(regs) < 1:
            return None
        a, b = draw(st.sampled_from(regs))
        here = {it['name'] for it in its[a:b] if it['t'] == 'label'}
        missing = ['.' + x for x in BASES if '.' + x not in here]
        if not missing:
            return None
        its.insert(draw(st.integers(a + 1, b)), probe(draw(st.sampled_from(missing))))
    elif fault == 'cross-file-ref':
        here = {n for _, n in labels}
        missing = ['_' + x for x in BASES if '_' + x not in here]
        if not missing:
            return None
        its.insert(draw(st.integers(0, len(its))), probe(draw(st.sampled_from(missing))))
    elif fault == 'undefined-global':
        its.insert(draw(st.integers(0, len(its))), probe('nowhere'))
    elif fault == 'orphan-local':
        first = regs[0][0] if regs else len(its)
        pos = draw(st.integers(0, first))
        if draw(st.booleans()) or not regs:
            its.insert(pos, {'t': 'label', 'name': '.orphan'})
        else:
            a, b = draw(st.sampled_from(regs))
            its.insert(b, {'t': 'label', 'name': '.orphan'})
            its.insert(b, {'t': 'org', 'e': ['num', 0x3000 + draw(st.integers(0, 50)), 'hex$']})
    elif fault == 'ref-after-org':
        cands = [(a, b, [it['name'] for it in its[a:b] if it['t'] == 'label' and it['name'].startswith('.')]) for a, b in regs]
        cands = [c for c in cands if c[2]]
        if not cands:
            return None
        a, b, names = draw(st.sampled_from(cands))
        its.insert(b, probe(draw(st.sampled_from(names))))
        its.insert(b, {'t': 'org', 'e': ['num', 0x3800 + draw(st.integers(0, 50)), 'hex$']})
    elif fault == 'register-label':
        its.insert(draw(st.integers(0, len(its))), {'t': 'label', 'name': draw(st.sampled_from(['a', 'x', 'hl']))})
    elif fault == 'keyword-label':
        its.insert(draw(st.integers(0, len(its))), {'t': 'label', 'name': draw(st.sampled_from(
            ['org', 'fill', 'byte', 'define', 'include', 'LSB', 'BYTE1', 'endif', 'zero', '_align', '_cstr']))})
    elif fault == 'local-keyword-label':
        if not regs:
            return None
        a, b = draw(st.sampled_from(regs))
        its.insert(draw(st.integers(a + 1, b)), {'t': 'label', 'name': draw(st.sampled_from(['.mute', '.emit', '.if', '.LSB']))})
    return items


def strategy(tier):
    return _cases(tier)


def multi_scope_reference(items):
    defs = {}
    refs = set()
    for f, its in _files(items).items():
        region = 0
        for it in its:
            if it['t'] == 'label':
                n = it['name']
                if not n.startswith('.'):
                    region += 1
                base = n.lstrip('._')
                defs.setdefault(base, set()).add((n[0] if n[0] in '._' else 'g', f if n[0] in '._' else None,
                                                  region if n.startswith('.') else None))
            elif it['t'] in ('org', 'memzone'):
                region += 1
            elif it['t'] == 'data':
                for v in it['vals']:
                    e = v
                    while isinstance(e, list) and e[0] != 'lab' and len(e) > 2 and isinstance(e[2], list):
                        e = e[2]
                    if isinstance(e, list) and e[0] == 'lab':
                        refs.add(e[1].lstrip('._'))
    return any(len(defs.get(b, ())) >= 2 for b in refs)


def execute(case, ctx):
    if 'skip' in case:
        return Outcome(classes=['skipped:' + case['skip']], evals=0, excluded=[case['skip']])
    try:
        cfg, isa, fname, files, verdict, lay = run_layout_case(ID, case)
        if verdict == 'accepted':
            lo, hi = min(lay.memory), max(lay.memory)
            want = lay.image(lo, hi, 0)
        else:
            lo, hi, want = 0, 8, None
    except R.Unspecified as u:
        return Outcome(classes=['unspecified:' + str(u).split(':')[0]], evals=0, excluded=['unspecified: ' + str(u).split(':')[0]])
    if case.get('join_labels'):
        # labels written in front of what follows them on one line (several in a row too): the same program
        for k in [k for k in files if k.endswith('.asm')]:
            out = []
            for line in files[k].split('\n'):
                if out and re.fullmatch(r'[._\w]+:(?: [._\w]+:)*', out[-1]) and line and not line.startswith(('#', ';')):
                    out[-1] = out[-1] + ' ' + line
                else:
                    out.append(line)
            if case['join_labels'] == 2:
                # further: a line that begins with a label is written behind the statement before it (two non-local
                # labels, with what follows each, on one source line): the same program
                out2 = []
                for line in out:
                    if out2 and re.match(r'[._\w]+: ', line) and re.search(r'\.(?:2?byte) [^;"\']*$', out2[-1]) \
                            and len(out2[-1]) < 160 and not out2[-1].startswith(('#', ';')):
                        out2[-1] = out2[-1] + '   ' + line
                    else:
                        out2.append(line)
                out = out2
            files[k] = '\n'.join(out)
    if case.get('mute_all') and verdict != 'accepted':
        # the faulty program with its output muted from the first line on: no byte reaches the image, and every name is
        # still resolved (or not) exactly as before
        files['main.asm'] = '#mute\n' + files['main.asm']
    argv = ['compile', '-c', fname, '-o', 'out.bin', '-s', str(lo), '-e', str(hi), 'main.asm']
    res = runner.run_forked(argv, files)
    fault = case.get('fault')
    detail = {'sources': {k: v for k, v in files.items() if k.endswith('.asm')}, 'argv': argv, 'fault': fault,
              'model': verdict if verdict == 'accepted' else 'rejected: ' + lay, 'run': res.brief()}
    findings = []
    if res.klass == 'timeout':
        findings.append(Finding('C06/timeout', detail))
    elif verdict == 'accepted' and res.klass != 'accepted':
        findings.append(Finding('C06/valid-program-rejected', detail))
    elif verdict != 'accepted' and res.klass == 'accepted':
        findings.append(Finding('C06/invalid-program-accepted/' + (fault or lay.replace(' ', '-')), detail))
    elif verdict == 'accepted':
        detail['expected_image'] = want.hex() if len(want) < 600 else f'<{len(want)} bytes>'
        if res.outputs.get('out.bin') != want:
            findings.append(Finding('C06/reference-resolved-to-wrong-definition', detail))
    nt = bool(fault) or multi_scope_reference(case['items'])
    classes = ['model:' + verdict, 'outcome:' + res.klass, 'fault:' + str(fault), 'files:%d' % len(detail['sources'])] + \
              (['labels-joined-with-the-following-line'] if case.get('join_labels') else []) + \
              (['faulty-program-muted-from-the-first-line'] if case.get('mute_all') and verdict != 'accepted' else []) + \
              (['several-labelled-statements-on-one-line'] if case.get('join_labels') == 2 else [])
    if verdict != 'accepted':
        classes.append('reject-reason:' + lay.split(' ')[0] + ' ' + ' '.join(lay.split(' ')[1:3]))
    sample = {'sources': detail['sources'], 'fault': fault, 'model': detail['model']}
    return Outcome(findings, nt, classes, 1, sample=sample)

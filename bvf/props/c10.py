"""C10 - a macro assembles to exactly its expanded instruction sequence (metamorphic)."""
from __future__ import annotations
import re

import copy

from hypothesis import strategies as st

from .. import exprs, isagen, refmodel as R, runner
from ..driver import Finding, Outcome

ID = 'C10'
LEVEL = 'exploration'
TECHNIQUE = ('metamorphic property-based testing (Hypothesis): generated macro definitions and invocations; the program '
             'with macro invocations and the program in which an independent expander replaced every invocation by '
             'its instruction lines are both assembled by the real CLI under the same ISA and must give the same '
             'exit status and image')
RULE = ('ISAs with 1..3 macros of 1..3 variants and 1..4 steps whose templates name real instructions and use @ARG(n), '
        '@REG(n), @OP(n) or literals over numeric, register, indirect-register+-offset and relative-address operands; '
        'some base instructions are not whole bytes (12- and 3-bit) and some steps take address-relative operands; '
        'invocations use literals, backward and forward labels; labels and probes follow. Also templates whose '
        'placeholder cannot be filled. Non-trivial = the chosen variant has >= 2 steps and >= 1 placeholder and both '
        'programs are accepted, or the placeholder is unfillable; classes: partial-byte step, relative step at position '
        '>= 2, forward reference, multi-variant. Distinct = SHA-1 of the case JSON.')
ASSUMPTIONS = [
    'where a placeholder is part of a larger expression (@ARG(0) * 2) the argument text is put there as it stands, as the property says: '
    'both sources are assembled by the tool, so precedence acts on the same text',
    '@ARG of an indirect register operand written with "-" expands to "0 - offset" (pinned from the tree); '
    '@ARG of an operand that has no argument is unfillable',
]
BUDGET = {'quick': 2000, 'thorough': 80000}
LEVEL_TEXT = ('Metamorphic exploration: equivalence of a macro with its hand expansion is a relation between two '
              'assemblies; it is checked on generated macro bodies and operand texts without any model of the encoding.')
LEVEL_NOTE = ('Trusted: the expander in this module (placeholder text substitution as the property states it) and '
              'refmodel.match_variant for choosing the macro variant.')

SETS = {
    'imm8': {'operand_values': {'imm': {'type': 'numeric', 'argument': {'size': 8, 'byte_align': False}}}},
    'addr': {'operand_values': {'abs': {'type': 'numeric', 'argument': {'size': 16, 'byte_align': True}}}},
    'rel': {'operand_values': {'rel': {'type': 'relative_address',
                                       'argument': {'size': 8, 'byte_align': True, 'min': -128, 'max': 127}}}},
    'relb': {'operand_values': {
        'rel': {'type': 'relative_address', 'use_curly_braces': True,
                'argument': {'size': 8, 'byte_align': True, 'min': -128, 'max': 127}},
        'abs': {'type': 'numeric', 'bytecode': {'value': 1, 'size': 1}, 'argument': {'size': 16, 'byte_align': True}}}},
    'rele': {'operand_values': {'rel': {'type': 'relative_address', 'offset_from_instruction_end': True,
                                        'argument': {'size': 8, 'byte_align': True, 'min': -128, 'max': 127}}}},
    'mem': {'operand_values': {
        'ind': {'type': 'indirect_numeric', 'bytecode': {'value': 1, 'size': 2}, 'argument': {'size': 16, 'byte_align': True}},
        'dfr': {'type': 'deferred_numeric', 'bytecode': {'value': 2, 'size': 2}, 'argument': {'size': 16, 'byte_align': True}},
        'imm': {'type': 'numeric', 'bytecode': {'value': 0, 'size': 2}, 'argument': {'size': 8, 'byte_align': True}},
    }},
    'regs': {'operand_values': {
        'r_a': {'type': 'register', 'register': 'a', 'bytecode': {'value': 0, 'size': 3}},
        'r_x': {'type': 'register', 'register': 'x', 'bytecode': {'value': 1, 'size': 3}},
        'ind_hl': {'type': 'indirect_register', 'register': 'hl', 'bytecode': {'value': 2, 'size': 3},
                   'offset': {'size': 8, 'byte_align': True}},
        'imm': {'type': 'numeric', 'bytecode': {'value': 3, 'size': 3}, 'argument': {'size': 16, 'byte_align': True}},
        # written "@hl": operand text that contains the character placeholders start with
        'r_at': {'type': 'register', 'register': 'hl', 'bytecode': {'value': 4, 'size': 3},
                 'decorator': {'type': 'at', 'is_prefix': True}},
    }},
}
# mnemonic -> operand sets; t12 is 12 bits, h3 is 3 bits: steps that are not whole bytes
BASE = {'nop': [], 'h3': [], 'ldi': ['imm8'], 't12': ['imm8'], 'jmp': ['addr'], 'br': ['rel'], 'mov': ['regs', 'regs'],
        'brx': ['regs', 'rel'], 'bre': ['rele'], 'brxe': ['regs', 'rele'], 'ldm': ['mem'], 'jb': ['relb']}
LABELS = ['start', 'loop', 'done', 'tbl', 'vec']
# a macro may not share its mnemonic with an instruction (configuration error, not this property's business)
MACRO_NAMES = [m for m in isagen.MACROS + ['mset', 'jz2', 'push.w'] if m not in BASE]


def base_isa(draw):
    general = {'address_size': 16, 'endian': draw(isagen.endians), 'registers': ['a', 'x', 'hl']}
    instrs = {
        'nop': {'bytecode': {'value': 0xEA, 'size': 8}},
        'h3': {'bytecode': {'value': draw(st.integers(0, 7)), 'size': 3}},
        'ldi': {'bytecode': {'value': draw(st.integers(0, 255)), 'size': 8}, 'operands': {'count': 1, 'operand_sets': {'list': ['imm8']}}},
        't12': {'bytecode': {'value': draw(st.integers(0, 15)), 'size': 4}, 'operands': {'count': 1, 'operand_sets': {'list': ['imm8']}}},
        'jmp': {'bytecode': {'value': draw(st.integers(0, 255)), 'size': 8}, 'operands': {'count': 1, 'operand_sets': {'list': ['addr']}}},
        'br': {'bytecode': {'value': draw(st.integers(0, 255)), 'size': 8}, 'operands': {'count': 1, 'operand_sets': {'list': ['rel']}}},
        'mov': {'bytecode': {'value': draw(st.integers(0, 15)), 'size': 4}, 'operands': {'count': 2, 'operand_sets': {'list': ['regs', 'regs']}}},
        'brx': {'bytecode': {'value': draw(st.integers(0, 63)), 'size': 6}, 'operands': {'count': 2, 'operand_sets': {'list': ['regs', 'rel']}}},
        'ldm': {'bytecode': {'value': draw(st.integers(0, 63)), 'size': 6}, 'operands': {'count': 1, 'operand_sets': {'list': ['mem']}}},
        'jb': {'bytecode': {'value': draw(st.integers(0, 127)), 'size': 7}, 'operands': {'count': 1, 'operand_sets': {'list': ['relb']}}},
        'bre': {'bytecode': {'value': draw(st.integers(0, 255)), 'size': 8}, 'operands': {'count': 1, 'operand_sets': {'list': ['rele']}}},
        'brxe': {'bytecode': {'value': draw(st.integers(0, 63)), 'size': 6}, 'operands': {'count': 2, 'operand_sets': {'list': ['regs', 'rele']}}},
    }
    if draw(st.booleans()):
        # mov also exists with one operand
        instrs['mov']['variants'] = [{'bytecode': {'value': draw(st.integers(0, 15)), 'size': 4},
                                      'operands': {'count': 1, 'operand_sets': {'list': ['regs']}}}]
    if draw(st.booleans()):
        instrs['br']['operands']['operand_sets'] = {'list': ['rel']}
        SETS_rel = copy.deepcopy(SETS)
    return {'general': general, 'operand_sets': copy.deepcopy(SETS), 'instructions': instrs}


@st.composite
def _macro_variant(draw, nops_choices=(0, 1, 1, 2, 2), like=None, allow_bad=True):
    nops = draw(st.sampled_from(nops_choices))
    osets = [draw(st.sampled_from(['imm8', 'addr', 'rel', 'regs', 'regs', 'mem', 'relb'])) for _ in range(nops)]
    v = {}
    if like is not None:
        # same operand configuration as an existing variant: both match the same invocations, the first one wins
        osets = list(((like.get('operands') or {}).get('operand_sets') or {}).get('list', []))
        nops = len(osets)
        if 'operands' in like:
            v['operands'] = copy.deepcopy(like['operands'])
    elif draw(st.integers(0, 5)) == 0:
        # listed combinations only, naming different registers in the same position (optionally followed by an operand
        # that is left out): @REG and @OP of that position differ from invocation to invocation
        regs = draw(st.lists(st.sampled_from(['a', 'x', 'hl']), min_size=2, max_size=3, unique=True))
        with_empty = draw(st.booleans())
        combos = {}
        for i, r in enumerate(regs):
            lst = {'r': {'type': 'register', 'register': r, 'bytecode': {'value': i, 'size': 2}}}
            if with_empty:
                lst['e'] = {'type': 'empty', 'bytecode': {'value': 0, 'size': 1}}
            combos['s_' + r] = {'list': lst}
        v['operands'] = {'count': 2 if with_empty else 1, 'specific_operands': combos}
        osets = ['regs'] + (['empty'] if with_empty else [])
        nops = len(osets)
    elif nops == 0 and draw(st.integers(0, 3)) == 0:
        # a listed combination whose only member is an 'empty' operand: invoked without operands
        v['operands'] = {'count': 1, 'specific_operands': {'none': {'list': {'e': {'type': 'empty', 'bytecode': {'value': 1, 'size': 2}}}}}}
        if draw(st.booleans()):
            v['operands']['operand_sets'] = {'list': ['imm8']}
            osets = []
    elif nops or draw(st.booleans()):
        v['operands'] = {'count': nops}
        if nops:
            v['operands']['operand_sets'] = {'list': osets}
    steps = []
    nsteps = draw(st.integers(1, 4))
    bad = allow_bad and draw(st.integers(0, 11)) == 0
    for si in range(nsteps):
        mn = draw(st.sampled_from(sorted(BASE)))
        slots = []
        for slot_set in BASE[mn]:
            numeric_like = [i for i, s in enumerate(osets) if s in ('imm8', 'addr', 'rel')]
            reg_like = [i for i, s in enumerate(osets) if s == 'regs']
            k = draw(st.integers(0, 9))
            if slot_set in ('imm8', 'addr', 'rel', 'rele'):
                if numeric_like and k < 6:
                    i = draw(st.sampled_from(numeric_like))
                    slots.append(draw(st.sampled_from([f'@ARG({i})', f'@OP({i})'])))
                    if slot_set in ('imm8', 'addr') and draw(st.integers(0, 4)) == 0:
                        # the placeholder as part of a larger expression: the argument text is put there as it stands
                        slots[-1] = draw(st.sampled_from(['@ARG(%d) * 2', '2 * @ARG(%d)', '100 - @ARG(%d)', '@ARG(%d) - 1',
                                                          '@ARG(%d) / 2', '300 - @ARG(%d) * 2'])) % i
                elif slot_set in ('rel', 'rele'):
                    slots.append(draw(st.sampled_from(LABELS)))
                else:
                    slots.append(str(draw(st.integers(0, 255))))
            elif slot_set == 'relb':
                b_like = [i for i, s_ in enumerate(osets) if s_ == 'relb']
                if b_like and k < 7:
                    slots.append(f'@OP({draw(st.sampled_from(b_like))})')
                elif numeric_like and k < 9:
                    slots.append('{' + f'@ARG({draw(st.sampled_from(numeric_like))})' + '}')
                else:
                    slots.append(draw(st.sampled_from(['{loop}', 'tbl', '{done + 1}'])))
            elif slot_set == 'mem':
                mem_like = [i for i, s_ in enumerate(osets) if s_ == 'mem']
                if mem_like and k < 7:
                    slots.append(f'@OP({draw(st.sampled_from(mem_like))})')
                elif numeric_like and k < 9:
                    slots.append('[' + f'@ARG({draw(st.sampled_from(numeric_like))})' + ']')
                else:
                    slots.append(draw(st.sampled_from(['[$1234]', '[[tbl]]', '7'])))
            else:
                if reg_like and k < 5:
                    i = draw(st.sampled_from(reg_like))
                    slots.append(draw(st.sampled_from([f'@OP({i})', f'@OP({i})', f'@REG({i})'])))
                elif numeric_like and k < 7:
                    i = draw(st.sampled_from(numeric_like))
                    slots.append(f'@ARG({i})')
                else:
                    slots.append(draw(st.sampled_from(['a', 'x', '[hl]', '[hl + 2]', '77', '@hl'])))
        if 'empty' in osets and len(slots) == 2 and draw(st.booleans()):
            # the operand that is left out, forwarded as the last operand of a step
            slots[-1] = f"@OP({osets.index('empty')})"
            if draw(st.booleans()):
                slots[0] = '@OP(0)'
        steps.append(mn + (' ' + draw(st.sampled_from([', ', ','])).join(slots) if slots else ''))
    if bad and nops:
        i = draw(st.integers(0, nops))          # index == nops is out of range
        ph = draw(st.sampled_from([f'@REG({i})', f'@ARG({i})', f'@OP({i})']))
        steps.append('ldi ' + ph if not ph.startswith('@REG') else 'mov a, ' + ph)
    v['instructions'] = steps
    return v


@st.composite
def _cases(draw, tier):
    cfg = base_isa(draw)
    macros = {}
    for name in draw(st.lists(st.sampled_from(MACRO_NAMES), min_size=1, max_size=3, unique=True)):
        macros[name] = [draw(_macro_variant()) for _ in range(draw(st.integers(1, 3)))]
        if draw(st.integers(0, 3)) == 0:
            macros[name].append(draw(_macro_variant(like=draw(st.sampled_from(macros[name])), allow_bad=False)))
    wide = draw(st.integers(0, 9)) == 0
    if wide:
        # a macro of eleven operands: placeholder indices of two digits
        idx = draw(st.lists(st.integers(0, 10), min_size=2, max_size=4))
        macros['wide11'] = [{'operands': {'count': 11, 'operand_sets': {'list': ['imm8'] * 11}},
                             'instructions': [f'ldi @ARG({i})' for i in idx] + ['ldi @ARG(10)', 'ldi @ARG(1)']}]
    cfg['macros'] = macros
    isa = R.Isa(cfg)
    origin = draw(st.sampled_from([0, 0x100, 0x7F00]))
    # case-twins of the label names, bound to other values: an invocation may be repeated with them
    twins = {n: n.upper() for n in LABELS}
    nlines = draw(st.integers(2, 7))
    labels = draw(st.lists(st.sampled_from(LABELS), min_size=2, max_size=4, unique=True))
    # the templates may name any of LABELS: define them all
    labels = list(LABELS)
    body = [{'t': 'const', 'name': twins[n], 'value': origin + draw(st.integers(0, 40))} for n in LABELS]
    pending = list(labels)
    for i in range(nlines):
        if pending and draw(st.booleans()):
            body.append({'t': 'label', 'name': pending.pop(0)})
        k = draw(st.integers(0, 9))
        if k < 6:
            mname = draw(st.sampled_from(sorted(macros)))
            mv = draw(st.sampled_from(macros[mname]))
            ops = []
            for sname in ((mv.get('operands') or {}).get('operand_sets') or {}).get('list', []):
                ops.append(draw(_operand(sname, labels)))
            spec = (mv.get('operands') or {}).get('specific_operands') or {}
            named = sorted(c['list']['r']['register'] for c in spec.values() if 'r' in c['list'])
            if named and 'operand_sets' not in mv['operands']:
                ops = [{'k': 'reg', 'r': draw(st.sampled_from(named)), 'deco': None}]
            if not ops and not named and draw(st.integers(0, 4)) == 0:
                # operands written behind a macro whose chosen variant takes none: unless another variant takes them,
                # no variant accepts the statement
                ops = [{'k': 'expr', 'e': draw(st.sampled_from([['num', 5, 'dec'], ['lab', 'nowhere_'], ['lab', labels[0]]]))}]
                if draw(st.booleans()):
                    ops.append({'k': 'reg', 'r': 'a', 'deco': None})
            body.append({'t': 'macro', 'mn': mname, 'ops': ops})
            if named and 'operand_sets' not in mv['operands'] and draw(st.booleans()):
                # the same macro again with another of the listed registers
                body.append({'t': 'macro', 'mn': mname, 'ops': [{'k': 'reg', 'r': draw(st.sampled_from(named)), 'deco': None}]})
            if ops and draw(st.integers(0, 2)) == 0:
                ops2 = [isagen.twin_operand(o, twins) for o in ops]
                if ops2 != ops:
                    body.append({'t': 'macro', 'mn': mname, 'ops': ops2, 'twin': True})
        elif k < 8:
            body.append({'t': 'instr', 'mn': 'ldi', 'ops': [{'k': 'expr', 'e': ['num', draw(st.integers(0, 255)), 'dec']}]})
        else:
            body.append({'t': 'data', 'd': '.2byte', 'vals': [['lab', draw(st.sampled_from(labels))]]})
    for n in pending:
        body.append({'t': 'label', 'name': n})
        body.append({'t': 'instr', 'mn': 'nop', 'ops': []})
    body.append({'t': 'data', 'd': '.2byte', 'vals': [['lab', draw(st.sampled_from(labels))]]})
    return {'isa': cfg, 'body': body, 'origin': origin}


@st.composite
def _operand(draw, sname, labels):
    if sname in ('imm8',):
        if draw(st.integers(0, 9)) == 0:
            return {'k': 'expr', 'e': ['num', ord('@'), 'chr']}
        return {'k': 'expr', 'e': isagen.value_ast(draw, draw(st.integers(0, 255)), None)}
    if sname in ('addr', 'imm8') and draw(st.integers(0, 5)) == 0:
        # an argument that is a sum or difference itself
        a, b = draw(st.integers(1, 60)), draw(st.integers(1, 30))
        left = ['lab', draw(st.sampled_from(labels))] if sname == 'addr' and draw(st.booleans()) else ['num', a + b, 'dec']
        return {'k': 'expr', 'e': ['bin', draw(st.sampled_from(['+', '-'])), left, ['num', b, 'dec']]}
    if sname == 'addr':
        if draw(st.booleans()):
            return {'k': 'expr', 'e': ['lab', draw(st.sampled_from(labels))]}
        return {'k': 'expr', 'e': isagen.value_ast(draw, draw(st.integers(0, 65535)), None)}
    if sname == 'relb':
        e = ['lab', draw(st.sampled_from(labels))]
        return {'k': draw(st.sampled_from(['braced', 'braced', 'expr'])), 'e': e}
    if sname == 'mem':
        k = draw(st.sampled_from(['indnum', 'defnum', 'expr']))
        if k == 'expr':
            return {'k': 'expr', 'e': ['num', draw(st.integers(0, 255)), 'dec']}
        e = ['lab', draw(st.sampled_from(labels))] if draw(st.booleans()) else ['num', draw(st.integers(0, 65535)), 'hex$']
        return {'k': k, 'e': e}
    if sname == 'rel':
        e = ['lab', draw(st.sampled_from(labels))]
        if draw(st.integers(0, 3)) == 0:
            e = ['bin', '+', e, ['num', draw(st.integers(0, 3)), 'dec']]
        return {'k': 'expr', 'e': e}
    k = draw(st.integers(0, 5))
    if k == 5:
        return {'k': 'reg', 'r': 'hl', 'deco': ['at', True]}
    if k == 0:
        return {'k': 'reg', 'r': 'a', 'deco': None}
    if k == 1:
        return {'k': 'reg', 'r': 'x', 'deco': None}
    if k == 2:
        op = {'k': 'indreg', 'r': 'hl', 'deco': None, 'sign': None, 'off': None}
        if draw(st.booleans()):
            op['sign'] = draw(st.sampled_from(['+', '-']))
            op['off'] = ['num', draw(st.integers(0, 100)), draw(st.sampled_from(['dec', 'hex$']))]
        return op
    if k == 3:
        return {'k': 'expr', 'e': ['lab', draw(st.sampled_from(labels))]}
    return {'k': 'expr', 'e': isagen.value_ast(draw, draw(st.integers(0, 65535)), None)}


def strategy(tier):
    return _cases(tier)


class Unfillable(Exception):
    pass


def expand_invocation(isa, item):
    """-> (list of instruction text lines, info) ; raises Unfillable / R.Reject."""
    variants = isa.macro_variants(item['mn'])
    vi, v, (matched, _, _) = R.select_variant(variants, item['ops'], isa)
    texts = [isagen.render_operand(o) for o in item['ops']]
    # operand strings as the statement splitter sees them: text after the mnemonic, split on ','
    raw = (' ' + ', '.join(texts)).lstrip(' ') if texts else ''
    # (the comma of the character literal ',' separates nothing)
    op_strings = []
    if raw:
        start = 0
        for m in re.finditer(r"'.'|,", raw):
            if m.group(0) == ',':
                op_strings.append(raw[start:m.start()])
                start = m.end()
        op_strings.append(raw[start:])
    lines = []
    for tmpl in v['instructions']:
        s = tmpl
        for n, (aid, alt, op) in enumerate(matched):
            kind = alt['type']
            if kind == 'empty':
                if f'@ARG({n})' in s or f'@REG({n})' in s:
                    raise Unfillable('@ARG/@REG of an operand that is left out')
                s = s.replace(f'@OP({n})', '')      # the full text of an operand that is not there
                continue
            if f'@ARG({n})' in s:
                if kind in ('numeric', 'relative_address', 'address', 'indirect_numeric', 'deferred_numeric'):
                    arg = exprs.render(op['e']).strip()
                elif kind == 'indirect_register' and 'offset' in alt:
                    if op.get('off') is None:
                        arg = '0'
                    elif op['sign'] == '-':
                        arg = '0 - ' + exprs.render(op['off']).strip()
                    else:
                        arg = exprs.render(op['off']).strip()
                else:
                    raise Unfillable('@ARG of an operand without argument')
                s = s.replace(f'@ARG({n})', arg)
            if f'@REG({n})' in s:
                if kind in ('register', 'indirect_register', 'indexed_register', 'indirect_indexed_register'):
                    s = s.replace(f'@REG({n})', alt['register'])
                else:
                    raise Unfillable('@REG of an operand without register')
            if f'@OP({n})' in s:
                s = s.replace(f'@OP({n})', op_strings[n])
        if '@ARG' in s or '@REG' in s or '@OP' in s:
            raise Unfillable('placeholder index out of range')
        lines.append(s)
    return lines, {'variant': vi, 'nvariants': len(variants), 'steps': len(lines),
                   'placeholders': sum(t.count('@') for t in v['instructions'])}


def render(body, isa, expanded):
    lines = []
    infos = []
    for it in body:
        if it['t'] == 'label':
            lines.append(it['name'] + ':')
        elif it['t'] == 'macro':
            if expanded:
                ls, info = expand_invocation(isa, it)
                lines += ls
                infos.append((info, ls))
            else:
                lines.append(isagen.render_statement(it['mn'], it['ops']))
        elif it['t'] == 'instr':
            lines.append(isagen.render_statement(it['mn'], it['ops']))
        elif it['t'] == 'const':
            lines.append(f"{it['name']} = {it['value']}")
        else:
            lines.append(it['d'] + ' ' + ', '.join(exprs.render(e) for e in it['vals']))
    return '\n'.join(lines) + '\n', infos


def execute(case, ctx):
    cfg = case['isa']
    if case['origin']:
        cfg['general']['origin'] = case['origin']
    isa = R.Isa(cfg)
    fname, text = isagen.dump_isa(cfg, 'yaml')
    src_macro, _ = render(case['body'], isa, False)
    unfillable = None
    nomatch = None
    infos = []
    try:
        src_exp, infos = render(case['body'], isa, True)
    except Unfillable as u:
        unfillable = str(u)
        src_exp = None
    except R.Reject as r:
        nomatch = r.why
        src_exp = None
    except R.Unspecified as u:
        return Outcome(classes=['unspecified:' + str(u)], evals=0, excluded=['unspecified: ' + str(u)])
    argv = ['compile', '-c', fname, '-o', 'out.bin', '-s', str(case['origin']), 'main.asm']
    r1 = runner.run_forked(argv, {fname: text, 'main.asm': src_macro})
    detail = {'with_macros': src_macro, 'expanded': src_exp, 'macros': cfg['macros'], 'general': cfg['general'],
              'argv': argv, 'run_with_macros': r1.brief()}
    findings = []
    feats = set()
    for info, ls in infos:
        if info['nvariants'] > 1:
            feats.add('multi-variant')
        for i, l in enumerate(ls):
            m = l.split(' ')[0]
            if m in ('t12', 'h3', 'brx', 'brxe') and info['steps'] > 1:
                feats.add('partial-byte-step')
            if m in ('br', 'brx', 'bre', 'brxe') and i >= 1:
                feats.add('relative-step-at-position>=2')
    if any(it.get('twin') for it in case['body']):
        feats.add('repeated-with-case-twin-operands')
    if r1.klass == 'timeout':
        findings.append(Finding('C10/timeout', detail))
        return Outcome(findings, True, ['timeout'], 1)
    if unfillable or nomatch:
        if r1.klass == 'accepted':
            findings.append(Finding('C10/' + ('unfillable-placeholder-accepted' if unfillable else 'unmatched-invocation-accepted'), detail))
        return Outcome(findings, True, ['unfillable' if unfillable else 'no-variant-matches', 'outcome:' + r1.klass], 1,
                       sample={'with_macros': src_macro, 'macros': cfg['macros'], 'why': unfillable or nomatch})
    r2 = runner.run_forked(argv, {fname: text, 'main.asm': src_exp})
    detail['run_expanded'] = r2.brief()
    if r2.klass == 'timeout':
        findings.append(Finding('C10/timeout', detail))
    elif r1.klass != r2.klass:
        findings.append(Finding('C10/exit-status-differs/' + ('macro-rejected' if r2.klass == 'accepted' else 'macro-accepted'), detail))
    elif r1.klass == 'accepted' and r1.outputs.get('out.bin') != r2.outputs.get('out.bin'):
        tag = 'partial-byte-step' if 'partial-byte-step' in feats else \
              'relative-step' if 'relative-step-at-position>=2' in feats else 'other'
        findings.append(Finding('C10/image-differs-from-expansion/' + tag, detail))
    multi = any(i['steps'] >= 2 and i['placeholders'] >= 1 for i, _ in infos)
    nt = multi and r1.klass == 'accepted' and r2.klass == 'accepted'
    classes = ['outcome:' + r1.klass + '/' + r2.klass] + ['feat:' + f for f in sorted(feats)]
    return Outcome(findings, nt, classes, 2, sample={'with_macros': src_macro, 'expanded': src_exp, 'macros': cfg['macros']})

"""C17 - including a file is equivalent to assembling its text in place (under a fresh file scope)."""
from __future__ import annotations

import copy

from hypothesis import strategies as st

from .. import isagen, proggen as G, refmodel as R, runner
from ..driver import Finding, Outcome

ID = 'C17'
LEVEL = 'exploration'
TECHNIQUE = ('metamorphic + model-based property-based testing (Hypothesis): (1) a generated single-file program and the '
             'same program with 1..3 (possibly nested) intervals of consecutive lines moved into include files spread '
             'over -I directories must assemble to the same image; (2) programs with includes at arbitrary points (zone '
             'selected, local region open, muted, inside conditionals) are compared with the reference layout whose '
             'include semantics are the property\'s; (3) double / diamond / missing / ambiguous includes must be rejected')
RULE = ('(1) paste: programs restricted to global labels and the GLOBAL zone (origins, alignments, fills, muted and '
        'excluded regions, forward/backward references allowed) are split at random line intervals, nested splits '
        'allowed, files placed in 1..3 directories passed by -I (with duplicated directory arguments). (2) model: '
        'general programs with file-scoped and local labels, zones and includes. (3) reject: a file included twice '
        '(directly, nested, diamond), a missing file, a name present in two search directories. Non-trivial = a global '
        'label crossing a file boundary, or a nested include, or a non-GLOBAL zone / open local region / mute / '
        'conditional at the include point, or a reject case. Distinct = SHA-1 of the case JSON.')
ASSUMPTIONS = [
    'paste equivalence (1) is asserted only for programs without file-scoped/local labels and zone switches, where it '
    'holds unconditionally; everything else is decided by the reference layout (2)',
    'open conditional blocks and the mute depth continue across the include boundary (text-paste reading of the property)',
]
BUDGET = {'quick': 2000, 'thorough': 80000}
LEVEL_TEXT = ('Exploration of splittings: equivalence with in-place text is a relation between two assemblies (checked '
              'metamorphically without a model) and, for scope/zone behaviour at the boundary, a comparison with an '
              'independent layout model; no unit test includes a file at all.')
LEVEL_NOTE = 'Trusted: the splitter in this module; bvf/refmodel.py Layouter include semantics for part (2).'

NOLOCAL = ('local', 'flabel', 'memzone', 'orgzone')


def split_items(draw, items, depth=0, counter=None, dirs=('', 'inc_a', 'inc_b')):
    """Move random intervals of consecutive items into include files (recursively)."""
    counter = counter if counter is not None else [0]
    out = list(items)
    for _ in range(draw(st.integers(1, 2))):
        if len(out) < 2 or counter[0] >= 4:
            break
        i = draw(st.integers(0, len(out) - 1))
        j = draw(st.integers(i + 1, min(len(out), i + 8)))
        chunk = out[i:j]
        # a chunk must hold whole conditional blocks: an #include directive lives in exactly one branch
        depth_c, ok = 0, True
        for it in chunk:
            if it['t'] in ('if', 'ifdef', 'ifndef'):
                depth_c += 1
            elif it['t'] in ('elif', 'else') and depth_c == 0:
                ok = False
            elif it['t'] == 'endif':
                depth_c -= 1
                if depth_c < 0:
                    ok = False
        if not ok or depth_c != 0:
            continue
        counter[0] += 1
        # some names end in the main file's name
        fname = draw(st.sampled_from(['part{}.asm', 'part{}.asm', 'part{}main.asm', 'do{}.main.asm'])).format(counter[0])
        d = draw(st.sampled_from(dirs))
        sub = chunk
        if depth < 2 and len(chunk) >= 2 and draw(st.booleans()):
            sub = split_items(draw, chunk, depth + 1, counter, dirs)
        inc = {'t': 'include', 'file': fname, 'items': sub, 'path': (d + '/' if d else '') + fname}
        out[i:j] = [inc]
    return out


@st.composite
def _cases(draw, tier):
    kind = draw(st.sampled_from(['paste', 'paste', 'model', 'model', 'reject']))
    if kind == 'paste':
        cfg = draw(G.layout_isa(zones=False, blocks=True))
        b, feats = G.general_program(draw, cfg, max_steps=24, disable=NOLOCAL)
        split = split_items(draw, b.items)
        return {'kind': kind, 'isa': cfg, 'flat': b.items, 'split': split, 'lo': b.lo, 'links': draw(st.integers(0, 7)),
                'subdir': draw(st.sampled_from([False, False, True])),
                'idirs': draw(st.sampled_from([['inc_a', 'inc_b'], ['inc_b', 'inc_a', 'inc_a'], ['inc_a', 'inc_b', 'inc_c'],
                                               ['inc_a', '{ROOT}/inc_a', 'inc_b'], ['{ROOT}/inc_b', 'inc_a', './inc_b'],
                                               ['inc_a', 'inc_b', '{ROOT}']]))}
    if kind == 'model':
        cfg = draw(G.layout_isa(zones=True, blocks=True))
        b, feats = G.general_program(draw, cfg, max_steps=22, extra=['include', 'include', 'include', 'include'])
        dirs = {}
        for it in G.flatten(b.items):
            if it['t'] == 'include':
                d = draw(st.sampled_from(['', 'inc_a', 'inc_b']))
                it['path'] = (d + '/' if d else '') + it['file']
        return {'kind': kind, 'isa': cfg, 'items': b.items, 'lo': b.lo, 'feats': sorted(feats), 'links': draw(st.integers(0, 7)),
                'idirs': draw(st.sampled_from([['inc_a', 'inc_b'], ['inc_b', 'inc_a', 'inc_b'], ['inc_a', '{ROOT}/inc_a', 'inc_b'],
                                               ['inc_b', '{ROOT}', 'inc_a']]))}
    cfg = draw(G.layout_isa(zones=False))
    why = draw(st.sampled_from(['twice-direct', 'twice-nested', 'diamond', 'missing', 'ambiguous', 'self', 'ambiguous-link-to-the-other', 'missing-but-in-the-working-directory',
                                 'ambiguous-copy-next-to-includer', 'ambiguous-copy-next-to-nested-includer',
                                 'file-constants-of-one-name', 'file-constants-of-one-name',
                                 'ambiguous-the-other-is-a-directory', 'self-with-a-namesake-elsewhere', 'self-with-a-namesake-elsewhere',
                                 'includer-file-label-used-in-included', 'included-file-label-used-in-includer',
                                 'includer-file-label-used-in-nested', 'inert-twice', 'inert-missing']))
    byte = {'t': 'data', 'd': '.byte', 'vals': [['num', 7, 'dec']]}
    common = {'t': 'include', 'file': 'common.asm', 'items': [dict(byte)], 'path': 'inc_a/common.asm'}
    if why == 'twice-direct':
        items = [dict(byte), copy.deepcopy(common), dict(byte), copy.deepcopy(common)]
    elif why == 'twice-nested':
        items = [copy.deepcopy(common), {'t': 'include', 'file': 'outer.asm', 'path': 'inc_b/outer.asm',
                                         'items': [dict(byte), copy.deepcopy(common)]}]
    elif why == 'diamond':
        items = [{'t': 'include', 'file': 'left.asm', 'path': 'inc_a/left.asm', 'items': [copy.deepcopy(common)]},
                 {'t': 'include', 'file': 'right.asm', 'path': 'inc_b/right.asm', 'items': [dict(byte), copy.deepcopy(common)]}]
    elif why == 'inert-twice':
        # the second inclusion sits in a branch that is not compiled: nothing is included there, the program is fine
        items = [dict(byte), copy.deepcopy(common), {'t': 'if', 'lhs': ['num', 0, 'dec']}, copy.deepcopy(common), {'t': 'endif'}, dict(byte)]
    elif why == 'inert-missing':
        items = [dict(byte), {'t': 'ifdef', 'name': 'NEVER_DEFINED_SYM'},
                 {'t': 'include', 'file': 'nowhere.asm', 'items': [], 'path': 'nowhere.asm', 'absent': True}, {'t': 'endif'}, dict(byte)]
    elif why == 'file-constants-of-one-name':
        # not a reject scenario: both files define a file-scoped constant of the same name with another value and use it in
        # first-pass directives (.align, .fill count); each file sees its own
        p1, p2 = draw(st.sampled_from([(4, 16), (16, 4), (2, 8), (8, 32), (3, 5)]))
        return {'kind': 'reject', 'isa': cfg, 'items': [], 'why': why, 'idirs': ['inc_a', 'inc_b'], 'links': 0, 'pages': [p1, p2],
                'where': draw(st.sampled_from(['inc_a', 'inc_b', '.']))}
    elif why == 'self-with-a-namesake-elsewhere':
        items = [dict(byte), {'t': 'include', 'file': 'main.asm', 'items': [], 'path': 'main.asm'}]
    elif why == 'self':
        items = [dict(byte), {'t': 'include', 'file': 'main.asm', 'items': [], 'path': 'main.asm'}]
    elif why == 'includer-file-label-used-in-included':
        probe = {'t': 'data', 'd': '.2byte', 'vals': [['lab', '_mine']]}
        items = [{'t': 'label', 'name': '_mine'}, dict(byte),
                 {'t': 'include', 'file': 'common.asm', 'path': 'inc_a/common.asm', 'items': [dict(byte), probe]}]
        if draw(st.booleans()):
            items.reverse()
            items = [items[0], {'t': 'label', 'name': '_mine'}, dict(byte)]
    elif why == 'included-file-label-used-in-includer':
        probe = {'t': 'data', 'd': '.2byte', 'vals': [['lab', '_theirs']]}
        inc = {'t': 'include', 'file': 'common.asm', 'path': 'inc_a/common.asm',
               'items': [{'t': 'label', 'name': '_theirs'}, dict(byte)]}
        items = [inc, probe] if draw(st.booleans()) else [probe, inc]
    elif why == 'includer-file-label-used-in-nested':
        probe = {'t': 'data', 'd': '.2byte', 'vals': [['lab', '_mine']]}
        items = [{'t': 'label', 'name': '_mine'}, dict(byte),
                 {'t': 'include', 'file': 'outer.asm', 'path': 'inc_b/outer.asm', 'items': [
                     dict(byte), {'t': 'include', 'file': 'common.asm', 'path': 'inc_a/common.asm', 'items': [probe]}]}]
    elif why == 'ambiguous-copy-next-to-nested-includer':
        items = [dict(byte), {'t': 'include', 'file': 'outer.asm', 'path': 'inc_b/outer.asm',
                              'items': [dict(byte), copy.deepcopy(common)]}]
    else:
        items = [dict(byte), copy.deepcopy(common), dict(byte)]
    # surround with a few ordinary lines
    pre = [{'t': 'label', 'name': 'start'}, {'t': 'instr', 'mn': 'nop', 'ops': []}][:draw(st.integers(0, 2))]
    return {'kind': 'reject', 'isa': cfg, 'items': pre + items, 'why': why, 'idirs': ['inc_a', 'inc_b'],
            'links': draw(st.sampled_from([0, 0, 1]))}


def strategy(tier):
    return _cases(tier)


def _into_subdir(files):
    """The main file and everything stored next to it move into proj/; the include directories named on the command line
    stay where they are (a relative -I names a directory relative to where the tool is started)."""
    for k in [k for k in files if k.endswith('.asm') and '/' not in k]:
        files['proj/' + k] = files.pop(k)


def _argv(fname, idirs, lo=None, hi=None, main='main.asm'):
    argv = ['compile', '-c', fname, '-o', 'out.bin']
    for d in idirs:
        argv += ['-I', d]
    if lo is not None:
        argv += ['-s', str(lo)]
    if hi is not None:
        argv += ['-e', str(hi)]
    return argv + [main]


def boundary_features(items):
    feats = set()

    def walk(its, depth, state):
        for it in its:
            t = it['t']
            if t == 'include':
                if depth >= 1:
                    feats.add('nested-include')
                if state['zone'] != 'GLOBAL':
                    feats.add('zone-selected-at-include')
                if state['region']:
                    feats.add('local-region-open-at-include')
                if state['mute']:
                    feats.add('muted-at-include')
                if state['cond']:
                    feats.add('inside-conditional-at-include')
                sub = {'zone': 'GLOBAL', 'region': False, 'mute': state['mute'], 'cond': state['cond']}
                walk(it['items'], depth + 1, sub)
                state['mute'], state['cond'] = sub['mute'], sub['cond']
            elif t == 'label' and not it['name'].startswith('.'):
                state['region'] = True
            elif t in ('org', 'memzone'):
                state['region'] = False
                state['zone'] = it.get('zone') or 'GLOBAL'
            elif t == 'mute':
                state['mute'] += 1
            elif t == 'unmute':
                state['mute'] = max(0, state['mute'] - 1)
            elif t in ('if', 'ifdef', 'ifndef'):
                state['cond'] += 1
            elif t == 'endif':
                state['cond'] = max(0, state['cond'] - 1)
    walk(items, 0, {'zone': 'GLOBAL', 'region': False, 'mute': 0, 'cond': 0})
    # a global label defined in one file and used in another
    where = {}
    uses = []

    def names(x, out):
        if isinstance(x, list):
            if x and x[0] == 'lab':
                out.add(x[1])
            for c in x:
                names(c, out)
        elif isinstance(x, dict):
            for c in x.values():
                names(c, out)

    def walk2(its, f):
        for it in its:
            if it['t'] == 'include':
                walk2(it['items'], it['file'])
            elif it['t'] == 'label':
                where[it['name']] = f
            elif it['t'] in ('instr', 'data'):
                ns = set()
                names(it.get('ops') or it.get('vals'), ns)
                uses.append((f, ns))
    walk2(items, 'main.asm')
    if any(n in where and where[n] != f for f, ns in uses for n in ns):
        feats.add('global-label-crosses-file-boundary')
    return feats


def _link_some(files, links):
    """Some of the included files become symbolic links to a file stored elsewhere (bit i of `links` decides the
    i-th file): a link is a name like any other."""
    linked = 0
    for i, k in enumerate(sorted(k for k in files if k.endswith('.asm') and k != 'main.asm')):
        if links >> (i % 3) & 1:
            files[f'store/real{i}.txt'] = files[k]
            files[k] = ('symlink', f'store/real{i}.txt')
            linked += 1
    return linked


def execute(case, ctx):
    cfg = isagen.fix_int_keys(copy.deepcopy(case['isa']))
    isa = R.Isa(cfg)
    fname, text = isagen.dump_isa(cfg, 'yaml')
    kind = case['kind']
    extra_dirs = {d + '/.keep': '' for d in ('inc_a', 'inc_b', 'inc_c')}
    if kind == 'paste':
        flat = G.render_program(case['flat'])
        split = G.render_program(case['split'])
        for f in (flat, split):
            f[fname] = text
            f.update(extra_dirs)
        linked = _link_some(split, case.get('links', 0))
        main = 'main.asm'
        if case.get('subdir'):
            _into_subdir(flat)
            _into_subdir(split)
            main = 'proj/main.asm'
        argv = _argv(fname, case['idirs'], case['lo'], main=main)
        r1 = runner.run_forked(argv, flat)
        r2 = runner.run_forked(argv, split)
        feats = boundary_features(case['split'])
        if case.get('subdir') and feats:
            feats.add('main-file-in-a-subdirectory')
        if linked:
            feats.add('included-through-a-symbolic-link')
        if any(k.endswith('main.asm') and k not in ('main.asm', 'proj/main.asm') for k in split):
            feats.add('included-name-ends-in-main-file-name')
        detail = {'unsplit': flat[main], 'split': {k: v for k, v in split.items() if k.endswith('.asm')},
                  'argv': argv, 'run_unsplit': r1.brief(), 'run_split': r2.brief(), 'features': sorted(feats)}
        findings = []
        if r1.klass == 'timeout' or r2.klass == 'timeout':
            findings.append(Finding('C17/timeout', detail))
        elif r1.klass != r2.klass:
            findings.append(Finding('C17/paste/exit-status-differs/' + ('split-rejected' if r1.klass == 'accepted' else 'split-accepted'), detail))
        elif r1.klass == 'accepted' and r1.outputs.get('out.bin') != r2.outputs.get('out.bin'):
            tag = sorted(feats & {'muted-at-include', 'inside-conditional-at-include', 'nested-include'} or {'plain'})[0]
            findings.append(Finding('C17/paste/image-differs/' + tag, detail))
        nt = bool(feats) and r1.klass == 'accepted'
        return Outcome(findings, nt, ['kind:paste', 'outcome:' + r1.klass] + ['feat:' + f for f in sorted(feats)], 2,
                       sample={'unsplit': flat[main], 'split': detail['split'], 'argv': argv})
    files = G.render_program(case['items'])
    files[fname] = text
    files.update(extra_dirs)
    if kind == 'reject':
        why = case['why']
        if why == 'missing':
            del files['inc_a/common.asm']
        if why == 'ambiguous':
            files['inc_b/common.asm'] = '.byte 9\n'
        main = 'main.asm'
        if why == 'missing-but-in-the-working-directory':
            # the main file lives in proj/, the tool is started one level above, where a file of the included name lies:
            # the working directory is not a search directory
            del files['inc_a/common.asm']
            _into_subdir(files)
            files['common.asm'] = '.byte 9\n'
            main = 'proj/main.asm'
        if why == 'file-constants-of-one-name':
            p1, p2 = case['pages']
            inc = (case['where'] + '/' if case['where'] != '.' else '') + 'part.asm'
            files = {fname: text, 'main.asm': f'_pg = {p1}\n.byte 1\n.align _pg\n.fill _pg, 2\n#include "part.asm"\n.align _pg\n.byte 5\n',
                     inc: f'_pg = {p2}\n.byte 3\n.align _pg\n.fill _pg, 4\n'}
            org = isa.origin
            mem, a = {}, org

            def put(v, n=1):
                nonlocal a
                for _ in range(n):
                    mem[a] = v
                    a += 1

            def align(p):
                nonlocal a
                a = -(-a // p) * p
            put(1); align(p1); put(2, p1); put(3); align(p2); put(4, p2); align(p1); put(5)
            want = bytes(mem.get(x, 0) for x in range(org, a))
            argv = _argv(fname, case['idirs'], org, a - 1)
            res = runner.run_forked(argv, files)
            detail = {'sources': {k: v for k, v in files.items() if k.endswith('.asm')}, 'argv': argv, 'why': why,
                      'expected_image': want.hex(), 'run': res.brief()}
            fs = []
            if res.klass != 'accepted':
                fs.append(Finding('C17/model/valid-program-rejected', detail))
            elif res.outputs.get('out.bin') != want:
                fs.append(Finding('C17/model/image-differs/file-constants-of-one-name', detail))
            return Outcome(fs, True, ['kind:accept-scenario', 'why:' + why, 'outcome:' + res.klass], 1,
                           sample={'sources': detail['sources'], 'why': why})
        if why == 'ambiguous-the-other-is-a-directory':
            files['inc_b/common.asm/readme.txt'] = 'a directory of that name\n'      # found in two search directories all the same
        if why == 'self-with-a-namesake-elsewhere':
            # the main file names itself; a file of its name lies in one search directory: self-inclusion or a name found
            # twice, rejected either way (the main file is given by its absolute path, as build tools do)
            files['inc_a/main.asm'] = '.byte 9\n'
            main = '{ROOT}/main.asm' if case.get('links') else 'main.asm'
        if why == 'ambiguous-link-to-the-other':
            files['inc_b/common.asm'] = ('symlink', 'inc_a/common.asm')   # the name is found in two search directories
        if why == 'ambiguous-copy-next-to-includer':
            files['common.asm'] = '.byte 9\n'              # next to main.asm, and in inc_a
        if why == 'ambiguous-copy-next-to-nested-includer':
            files['inc_b/common.asm'] = '.byte 9\n'        # next to outer.asm, and in inc_a
        if case.get('links') and why in ('twice-direct', 'twice-nested', 'diamond'):
            _link_some(files, 7)
            why += '/through-symbolic-links'
        argv = _argv(fname, case['idirs'], isa.origin if why.startswith('inert-') else None, main=main)
        res = runner.run_forked(argv, files)
        detail = {'sources': {k: v for k, v in files.items() if k.endswith('.asm')}, 'argv': argv, 'why': why, 'run': res.brief()}
        findings = []
        if res.klass == 'timeout':
            findings.append(Finding('C17/timeout', detail))
        elif why.startswith('inert-'):
            # not a reject scenario: the pasted text assembles, so must this
            if res.klass != 'accepted':
                findings.append(Finding('C17/include-in-a-branch-that-is-not-compiled-takes-effect/' + why, detail))
        elif res.klass == 'accepted':
            findings.append(Finding('C17/reject/' + why + '-accepted', detail))
        return Outcome(findings, True, ['kind:reject', 'why:' + why, 'outcome:' + res.klass], 1,
                       sample={'sources': detail['sources'], 'why': why})
    try:
        verdict, lay = R.layout_program(isa, case['items'])
        if verdict == 'accepted':
            if not lay.memory:
                return Outcome(classes=['no-bytes'], evals=0)
            lo, hi = min(lay.memory), max(lay.memory)
            want = lay.image(lo, hi, 0)
        else:
            lo, hi, want = case['lo'], case['lo'] + 8, None
    except R.Unspecified as u:
        return Outcome(classes=['unspecified:' + str(u).split(':')[0]], evals=0, excluded=['unspecified: ' + str(u).split(':')[0]])
    linked = _link_some(files, case.get('links', 0))
    argv = _argv(fname, case['idirs'], lo, hi)
    res = runner.run_forked(argv, files)
    feats = boundary_features(case['items'])
    if linked:
        feats.add('included-through-a-symbolic-link')
    detail = {'sources': {k: v for k, v in files.items() if k.endswith('.asm')}, 'argv': argv, 'features': sorted(feats),
              'model': verdict if verdict == 'accepted' else 'rejected: ' + lay, 'run': res.brief(),
              'general': cfg['general'], 'predefined': cfg.get('predefined')}
    findings = []
    tag = sorted(feats or {'plain'})[0]
    if res.klass == 'timeout':
        findings.append(Finding('C17/timeout', detail))
    elif verdict == 'accepted' and res.klass != 'accepted':
        findings.append(Finding('C17/model/valid-program-rejected/' + tag, detail))
    elif verdict != 'accepted' and res.klass == 'accepted':
        findings.append(Finding('C17/model/invalid-program-accepted/' + lay.replace(' ', '-'), detail))
    elif verdict == 'accepted':
        detail['expected_image'] = want.hex() if len(want) < 600 else f'<{len(want)} bytes>'
        if res.outputs.get('out.bin') != want:
            findings.append(Finding('C17/model/wrong-image/' + tag, detail))
    nt = bool(feats) and verdict == 'accepted'
    return Outcome(findings, nt, ['kind:model', 'model:' + verdict, 'outcome:' + res.klass] + ['feat:' + f for f in sorted(feats)], 1,
                   sample={'sources': detail['sources'], 'argv': argv, 'model': detail['model']})

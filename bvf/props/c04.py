"""C04 - two lines never silently occupy the same address."""
from __future__ import annotations

from hypothesis import strategies as st

from .. import isagen, proggen as G, refmodel as R, runner
from ..driver import Finding, Outcome
from .c02 import run_layout_case

ID = 'C04'
LEVEL = 'exploration'
TECHNIQUE = ('property-based testing (Hypothesis): generated placements of byte ranges with a drawn pairwise relation '
             '(far, touching, 1-byte overlap, partial, containment, identical start), realised as data/fill/instruction '
             'lines and predefined blocks via absolute and zone-relative origins in random source order; exit status '
             'and image compared with an independent pairwise-disjointness oracle')
RULE = ('2..7 byte ranges are placed relative to each other with a drawn relation and emitted in a drawn source order, '
        'each by an origin directive (absolute or zone-relative) followed by a .byte list, .fill, .zero, jmp/nop '
        'instruction, or as a predefined data block; zero-length lines (.fill 0, .zero 0, .zerountil before the '
        'cursor) are optionally placed inside, at the edge of, or at the start of other ranges. Expected: rejected '
        'iff two ranges of positive length intersect, otherwise accepted with the reference image. Non-trivial = at '
        'least two positive-length ranges that are not far apart, or a zero-length line touching a range. Distinct = '
        'SHA-1 of the case JSON.')
ASSUMPTIONS = ['a muted line is a byte-producing line: it keeps its addresses and collides like any other, it is only absent '
               'from the image (the literal reading of the property; the tree agrees)']
BUDGET = {'quick': 3200, 'thorough': 200000}
LEVEL_TEXT = ('Exploration over the family of relative positions and source orders of ranges, with the relation drawn '
              'explicitly so that touching (must pass) and one-byte overlap (must fail) occur in every run.')
LEVEL_NOTE = 'Trusted: bvf/refmodel.py Layouter (pairwise overlap over positive-length lines).'

RELATIONS = ['far', 'far', 'far', 'touch-after', 'touch-before', 'far', 'touch-after', 'touch-before', 'overlap1-after', 'overlap1-before', 'partial', 'inside',
             'same-start', 'far', 'touch-after']


@st.composite
def _cases(draw, tier):
    cfg = draw(G.layout_isa(zones=True, blocks=False, address_sizes=(8, 12, 16, 16, 16, 24, 32, 10, 18, 56, 64)))
    isa = R.Isa(cfg)
    lo, hi = G.window_of(isa)
    if hi - lo < 600:
        lo, hi = lo, hi
    mid = lo + min(200, (hi - lo) // 3)
    n = draw(st.integers(2, 7))
    ranges = []     # (start, length, relation)
    for i in range(n):
        ln = draw(st.integers(1, 8))
        if not ranges:
            s = mid + draw(st.integers(0, 40))
            rel = 'first'
        else:
            rs, rl, _ = draw(st.sampled_from(ranges))
            rel = draw(st.sampled_from(RELATIONS))
            if rel == 'far':
                s = max(r[0] + r[1] for r in ranges) + draw(st.integers(2, 30))
            elif rel == 'touch-after':
                s = rs + rl
            elif rel == 'touch-before':
                s = rs - ln
            elif rel == 'overlap1-after':
                s = rs + rl - 1
            elif rel == 'overlap1-before':
                s = rs - ln + 1
            elif rel == 'partial':
                s = rs + draw(st.integers(0, max(0, rl - 1)))
            elif rel == 'inside':
                ln = draw(st.integers(1, max(1, rl)))
                s = rs + draw(st.integers(0, rl - ln))
            else:
                s = rs
        if s < lo or s + ln - 1 > hi:
            continue
        ranges.append((s, ln, rel))
    if len(ranges) < 2:
        return {'skip': 'could not place two ranges', 'isa': cfg}
    zones = {k: v for k, v in isa.zones.items() if k != 'GLOBAL'}
    # zones cut to measure: some ranges end exactly on the last (or start on the first) address of a zone of their own
    tailored = {}
    for idx, (s, ln, rel) in enumerate(ranges):
        if draw(st.integers(0, 3)) == 0 and len(tailored) < 3:
            zs_ = max(lo, s - draw(st.sampled_from([0, 0, 1, 3])))
            ze_ = min(hi, s + ln - 1 + draw(st.sampled_from([0, 0, 0, 1, 5])))
            tailored[f'T{idx}'] = (zs_, ze_)
    if tailored:
        zl = cfg.setdefault('predefined', {}).setdefault('memory_zones', [])
        for zn, (a, b) in tailored.items():
            zl.append({'name': zn, 'start': a, 'end': b})
        zones.update(tailored)
    pieces = []
    blocks = []
    nmuted = 0
    for idx, (s, ln, rel) in enumerate(ranges):
        kind = draw(st.sampled_from(['byte', 'byte', 'fill', 'zero', 'jmp', 'block', '2byte']))
        org = {'t': 'org', 'e': isagen._lit(s, draw)}
        zs = [zn for zn, (a, b) in zones.items() if a <= s and s + ln - 1 <= b]
        if f'T{idx}' in tailored:
            zs = [f'T{idx}'] * 3 + zs
        if zs and draw(st.booleans()):
            zn = draw(st.sampled_from(zs))
            org = {'t': 'org', 'e': isagen._lit(s - zones[zn][0], draw), 'zone': zn}
        if kind == 'block' and len(blocks) < 2:
            blocks.append({'name': f'pre_blk{len(blocks)}', 'address': s, 'value': draw(st.integers(0, 255)), 'size': ln})
            continue
        if kind == 'jmp':
            item = {'t': 'instr', 'mn': 'jmp', 'ops': [{'k': 'expr', 'e': isagen._lit(draw(st.integers(lo, hi)), draw)}]}
        elif kind == 'fill':
            item = {'t': 'fill', 'n': isagen._lit(ln, draw), 'v': isagen._lit(draw(st.integers(0, 255)), draw)}
        elif kind == 'zero':
            item = {'t': 'zero', 'n': isagen._lit(ln, draw)}
        elif kind == '2byte' and ln % 2 == 0:
            item = {'t': 'data', 'd': '.2byte', 'vals': [['num', draw(st.integers(0, 65535)), 'hex$'] for _ in range(ln // 2)]}
        else:
            item = {'t': 'data', 'd': '.byte', 'vals': [['num', draw(st.integers(0, 255)), 'hex$'] for _ in range(ln)]}
        if draw(st.integers(0, 4)) == 0:
            # a muted line keeps its addresses (it is only absent from the image): it collides like any other
            pieces.append([org, {'t': 'mute', 'kw': 'mute'}, item, {'t': 'unmute', 'kw': draw(st.sampled_from(['unmute', 'emit']))}])
            nmuted += 1
        else:
            pieces.append([org, item])
    nzero = draw(st.sampled_from([0, 0, 1, 2]))
    for _ in range(nzero):
        rs, rl, _ = draw(st.sampled_from(ranges))
        where = draw(st.sampled_from(['start', 'inside', 'end', 'after']))
        a = {'start': rs, 'inside': rs + draw(st.integers(0, rl - 1)), 'end': rs + rl - 1, 'after': rs + rl}[where]
        z = draw(st.sampled_from(['fill0', 'zero0', 'zerountil']))
        if z == 'fill0':
            item = {'t': 'fill', 'n': ['num', 0, 'dec'], 'v': ['num', 7, 'dec']}
        elif z == 'zero0':
            item = {'t': 'zero', 'n': ['num', 0, 'dec']}
        else:
            item = {'t': 'zerountil', 'a': isagen._lit(max(0, a - 1 - draw(st.integers(0, 3))), draw)}
            if a == 0:
                item = {'t': 'zero', 'n': ['num', 0, 'dec']}
        pieces.append([{'t': 'org', 'e': isagen._lit(a, draw)}, item, {'zero_length': where}])
    order = draw(st.permutations(list(range(len(pieces)))))
    items = []
    for i in order:
        items += [p for p in pieces[i] if 't' in p]
    if blocks:
        cfg.setdefault('predefined', {})['data'] = blocks
    return {'isa': cfg, 'items': items, 'lo': lo, 'relations': [r[2] for r in ranges], 'nzero': nzero,
            'fill': draw(st.sampled_from([0, 0xEE])), 'tailored_zones': len(tailored), 'nmuted': nmuted,
            'mode': draw(st.sampled_from(['binary', 'binary', 'no-binary', 'narrow-window']))}


def strategy(tier):
    return _cases(tier)


def execute(case, ctx):
    if 'skip' in case:
        return Outcome(classes=['skipped:' + case['skip']], evals=0, excluded=[case['skip']])
    try:
        cfg, isa, fname, files, verdict, lay = run_layout_case(ID, case)
        if verdict == 'accepted':
            if not lay.memory:
                lo, hi = case['lo'], case['lo'] + 8       # everything muted: an explicit window of fill
            else:
                lo, hi = min(lay.memory), max(lay.memory)
            want = lay.image(lo, hi, case['fill'])
        else:
            lo, hi, want = case['lo'], case['lo'] + 8, None
    except R.Unspecified as u:
        return Outcome(classes=['unspecified:' + str(u).split(':')[0]], evals=0, excluded=['unspecified: ' + str(u).split(':')[0]])
    argv = ['compile', '-c', fname, '-o', 'out.bin', '-s', str(lo), '-e', str(hi), '-f', str(case['fill']), 'main.asm']
    if case.get('mode') == 'narrow-window':
        # the image window ends below most of the program: lines outside it collide all the same
        hi = lo
        if want is not None:
            want = want[:1]
        argv = ['compile', '-c', fname, '-o', 'out.bin', '-s', str(lo), '-e', str(hi), '-f', str(case['fill']), 'main.asm']
    nobin = case.get('mode') == 'no-binary'
    if nobin:
        # overlap is an error whether or not an image is asked for
        # (Intel HEX has 32-bit addresses: wider address spaces get the listing instead)
        fmt = 'intel_hex' if cfg['general']['address_size'] <= 32 else 'listing'
        argv = ['compile', '-c', fname, '-n', '-p', '-t', fmt, '--pretty-print-output', 'pp.txt', 'main.asm']
    res = runner.run_forked(argv, files)
    detail = {'source': files['main.asm'], 'general': cfg['general'], 'predefined': cfg.get('predefined'), 'argv': argv,
              'relations': case['relations'], 'model': verdict if verdict == 'accepted' else 'rejected: ' + lay,
              'run': res.brief()}
    findings = []
    overlap_expected = verdict != 'accepted' and 'common address' in lay
    ztag = '/with-zero-length-line' if case['nzero'] else ''
    if res.klass == 'timeout':
        findings.append(Finding('C04/timeout', detail))
    elif verdict == 'accepted' and res.klass != 'accepted':
        if 'overlap' in res.stderr:
            findings.append(Finding('C04/disjoint-ranges-rejected-for-overlap' + ztag, detail))
        else:
            findings.append(Finding('C04/valid-program-rejected' + ztag, detail))
    elif overlap_expected and res.klass == 'accepted':
        findings.append(Finding('C04/overlap-silently-accepted' + ztag, detail))
    elif verdict != 'accepted' and res.klass == 'accepted':
        findings.append(Finding('C04/invalid-program-accepted', detail))
    elif verdict == 'accepted' and not nobin:
        detail['expected_image'] = want.hex()
        if res.outputs.get('out.bin') != want:
            findings.append(Finding('C04/wrong-image' + ztag, detail))
    rels = set(case['relations'])
    nt = bool(rels - {'first', 'far'}) or case['nzero'] > 0
    classes = ['model:' + ('overlap' if overlap_expected else verdict), 'outcome:' + res.klass] + \
              ['rel:' + r for r in sorted(rels)] + (['zero-length-lines'] if case['nzero'] else []) + \
              (['mode:no-binary'] if nobin else []) + (['mode:narrow-window'] if case.get('mode') == 'narrow-window' else []) + (['muted-ranges'] if case.get('nmuted') else []) + (['zones-cut-to-measure'] if case.get('tailored_zones') else [])
    sample = {'source': files['main.asm'], 'relations': case['relations'], 'model': detail['model']}
    return Outcome(findings, nt, classes, 1, sample=sample)

"""C19 - malformed ISA definitions and unmet version requirements are rejected; well-formed ones never are."""
from __future__ import annotations

import copy
import re

from hypothesis import strategies as st

from .. import isagen, refmodel as R, runner
from ..driver import Finding, Outcome, canon, digest

ID = 'C19'
LEVEL = 'fault_enumeration'
TECHNIQUE = ('fault enumeration + property-based testing (Hypothesis): generated well-formed ISA definitions must be '
             'accepted; every single-fault corruption from a fixed catalogue (applied to generated bases, and the whole '
             'catalogue once per run on a fixed base) must be rejected; min_version and #require gates are probed with '
             'version pairs whose numeric and lexical orders differ, against an own semantic-version comparator')
RULE = ('Base definitions come from the broad ISA generator (all operand types, zones, macros). One fault from the '
        'catalogue is applied: missing general / instructions; keyword mnemonic or macro name (any letter case) / register; macro '
        'named like an instruction; undeclared operand set; register operand naming an undeclared register (also as the index or base of a register-indexed operand); count != '
        'number of operand sets (instructions and macros); numeric_bytecode max < min; zone inverted / beyond the address '
        'width / origin below a redefined GLOBAL. Version gates: min_version around the running version 0.4.3b1 and the '
        'minimum 0.3.0; #require "name op version" for the five operators x ISA versions (1.10.0 vs 1.9.0 ...), '
        'matching and non-matching names. Non-trivial = a corrupted definition or an order-discriminating version '
        'pair (numeric and lexical order differ). Distinct = SHA-1 of the case JSON. The catalogue is enumerated '
        'completely on a fixed base in every run (reported under extra_phase).')
ASSUMPTIONS = [
    'only the malformations the property names are asserted; other suspicious definitions (unknown operand type, unknown '
    'decorator, non-semver ISA version, deprecated predefined.memory ...) are generated and histogrammed but not asserted',
    'keyword register names are written in the exact case of the keyword',
    'acceptance is probed by assembling a one-line data program, so only load-time validation is exercised',
    'a definition without identifier.name is called after its configuration file: the file name up to its last extension '
    '(pinned from the tree), and a definition without identifier has version 0.0.1',
]
BUDGET = {'quick': 3000, 'thorough': 100000}
LEVEL_TEXT = ('Fault enumeration over a fixed catalogue, multiplied over generated base definitions: each listed kind of '
              'malformation is injected alone, so a validation branch that stops rejecting shows as exit status 0; '
              'acceptance of well-formed definitions is checked on every generated base.')
LEVEL_NOTE = ('Trusted: the fault injectors and the version comparator in this module; the running version (0.4.3b1) and '
              'minimum (0.3.0) are read from bespokeasm/__init__.py at run time.')

FAULTS = ['missing-general', 'missing-instructions', 'keyword-mnemonic', 'keyword-macro', 'keyword-register', 'macro-named-like-instruction',
          'undeclared-operand-set', 'undeclared-register', 'undeclared-register-in-indexed-operand', 'count-mismatch', 'macro-count-mismatch', 'max-below-min',
          'zone-inverted', 'zone-beyond-width', 'origin-below-global']
INFORMATIONAL = ['unknown-operand-type', 'unknown-position', 'instruction-without-bytecode', 'register-as-enum-key',
                 'non-semver-version', 'deprecated-memory', 'unknown-file-extension']
KEYWORDS = sorted(R.KEYWORDS)
MIN_VERSIONS = ['0.3.0', '0.3.1', '0.3.10', '0.4.0', '0.4.2', '0.4.3a1', '0.4.3b1', '0.4.3b2', '0.4.3rc1', '0.4.3', '0.4.4',
                '0.4.10', '0.5.0', '0.10.0', '1.0.0', '0.2.9', '0.2.10', '0.1.0', '0.04.2', '10.0.0', '0.3.0b1']
ISA_VERSIONS = ['1.9.0', '1.10.0', '1.2.3', '0.9.12', '2.0.0', '1.10.1', '1.09.0', '2.0.0rc1', '2.0.0a1', '1.10.0b2', 0, '0.0.1', 1]
OPS = ['==', '>=', '<=', '>', '<']


def vkey(v):
    v = str(v)
    if re.match(r'^\d+(\.\d+)?$', v):
        v = v + '.0' * (2 - v.count('.'))        # "0" and "1.2" are 0.0.0 and 1.2.0
    m = re.match(r'^(\d+)\.(\d+)\.(\d+)(?:(a|b|rc)(\d+))?$', v)
    if not m:
        raise ValueError(v)
    pre = {'a': 0, 'b': 1, 'rc': 2, None: 3}[m.group(4)]
    return (int(m.group(1)), int(m.group(2)), int(m.group(3)), pre, int(m.group(5) or 0))


def running_versions():
    runner._import_target()
    import bespokeasm
    return bespokeasm.BESPOKEASM_VERSION_STR, bespokeasm.BESPOKEASM_MIN_REQUIRED_STR


def apply_fault(cfg, fault, draw):
    cfg = copy.deepcopy(cfg)
    g = cfg['general']
    asz = g['address_size']
    top = (1 << asz) - 1
    mns = sorted(cfg['instructions'])
    if fault == 'missing-general':
        del cfg['general']
    elif fault == 'missing-instructions':
        del cfg['instructions']
    elif fault == 'keyword-mnemonic':
        kw = draw(st.sampled_from(KEYWORDS))
        kw = draw(st.sampled_from([kw, kw.upper(), kw.lower(), kw.title()]))
        cfg['instructions'][kw] = {'bytecode': {'value': 1, 'size': 8}}
    elif fault == 'keyword-macro':
        # a macro name is a mnemonic too
        kw = draw(st.sampled_from(KEYWORDS + ['LSB', 'BYTE0', 'BYTE1', 'BYTE9']))
        kw = draw(st.sampled_from([kw, kw.upper(), kw.lower(), kw.title()]))
        cfg.setdefault('macros', {})[kw] = [{'instructions': [sorted(cfg['instructions'])[0]]}]
    elif fault == 'keyword-register':
        g['registers'] = list(g.get('registers') or []) + [draw(st.sampled_from(KEYWORDS))]
    elif fault == 'macro-named-like-instruction':
        mn = draw(st.sampled_from(mns))
        # mnemonics are case-insensitive: the instruction key and the macro key may differ in letter case
        style = draw(st.sampled_from(['same', 'macro-upper', 'instr-upper', 'instr-title']))
        if style in ('instr-upper', 'instr-title'):
            key = mn.upper() if style == 'instr-upper' else mn.title()
            cfg['instructions'] = {(key if k == mn else k): v for k, v in cfg['instructions'].items()}
            macro_name = mn
        else:
            macro_name = mn.upper() if style == 'macro-upper' else mn
        cfg.setdefault('macros', {})[macro_name] = [{'instructions': [sorted(cfg['instructions'])[0]]}]
    elif fault == 'undeclared-operand-set':
        cfg['instructions']['zzq'] = {'bytecode': {'value': 1, 'size': 8},
                                      'operands': {'count': 1, 'operand_sets': {'list': ['no_such_set']}}}
    elif fault in ('undeclared-register', 'undeclared-register-in-indexed-operand'):
        where = draw(st.sampled_from(['set', 'specific', 'indirect', 'specific-of-another-length']))
        if fault == 'undeclared-register-in-indexed-operand':
            where = draw(st.sampled_from(['index-of-indexed', 'index-of-indirect-indexed', 'base-of-indexed']))
        alt = {'type': 'indirect_register' if where == 'indirect' else 'register', 'register': 'qq',
               'bytecode': {'value': 0, 'size': 2}}
        if where in ('index-of-indexed', 'index-of-indirect-indexed', 'base-of-indexed'):
            # the undeclared register is the index (or the base) of a register-indexed operand
            regs = list(g.get('registers') or []) or ['a']
            g['registers'] = regs
            ok = {'type': 'register', 'register': regs[-1], 'bytecode': {'value': 1, 'size': 2}}
            inner = {'type': 'register', 'register': 'qq', 'bytecode': {'value': 0, 'size': 2}}
            alt = {'type': 'indirect_indexed_register' if where == 'index-of-indirect-indexed' else 'indexed_register',
                   'register': 'qq' if where == 'base-of-indexed' else regs[0], 'bytecode': {'value': 0, 'size': 2},
                   'index_operands': {'okreg': ok} if where == 'base-of-indexed' else
                   draw(st.sampled_from([{'badreg': inner}, {'okreg': ok, 'badreg': inner},
                                         {'num': {'type': 'numeric', 'argument': {'size': 8, 'byte_align': True}}, 'badreg': inner}]))}
            where = 'set'
        if where == 'specific-of-another-length':
            # the faulty combination lists two operands where the instruction takes one: it can never match, it is
            # malformed all the same
            good = {'type': 'numeric', 'argument': {'size': 8, 'byte_align': True}}
            cfg['instructions']['zzq'] = {'bytecode': {'value': 1, 'size': 8},
                                          'operands': {'count': 1, 'specific_operands': {
                                              'ok': {'list': {'n': dict(good)}},
                                              's': {'list': {'n': dict(good), 'r': alt}}}}}
        elif where == 'specific':
            cfg['instructions']['zzq'] = {'bytecode': {'value': 1, 'size': 8},
                                          'operands': {'count': 1, 'specific_operands': {'s': {'list': {'r': alt}}}}}
        else:
            cfg['operand_sets']['bad_set'] = {'operand_values': {'r': alt}}
    elif fault in ('count-mismatch', 'macro-count-mismatch'):
        sname = sorted(cfg['operand_sets'])[0]
        n = draw(st.integers(1, 3))
        wrong = draw(st.sampled_from([c for c in (0, 1, 2, 3, 4) if c != n]))
        oc = {'count': wrong, 'operand_sets': {'list': [sname] * n}}
        if draw(st.booleans()):
            # a listed combination next to the operand sets does not excuse the mismatch
            oc['specific_operands'] = {'sp': {'list': {f'n{i}': {'type': 'numeric', 'argument': {'size': 8, 'byte_align': True}}
                                                       for i in range(wrong)}}}
        if fault == 'count-mismatch':
            cfg['instructions']['zzq'] = {'bytecode': {'value': 1, 'size': 8}, 'operands': oc}
        else:
            cfg.setdefault('macros', {})['zzm'] = [{'operands': oc, 'instructions': []}]
    elif fault == 'max-below-min':
        lo = draw(st.integers(1, 7))
        bad = {'type': 'numeric_bytecode', 'bytecode': {'size': 3, 'min': lo, 'max': draw(st.integers(0, lo - 1))}}
        if draw(st.integers(0, 3)) == 0:
            # inside a listed combination of another length than the operand count
            good = {'type': 'numeric', 'argument': {'size': 8, 'byte_align': True}}
            cfg['instructions']['zzq'] = {'bytecode': {'value': 1, 'size': 8},
                                          'operands': {'count': 1, 'specific_operands': {
                                              'ok': {'list': {'n': dict(good)}},
                                              's': {'list': {'n': dict(good), 'nb': bad}}}}}
        else:
            cfg['operand_sets']['bad_set'] = {'operand_values': {'nb': bad}}
    elif fault in ('zone-inverted', 'zone-beyond-width'):
        pre = cfg.setdefault('predefined', {})
        zl = pre.setdefault('memory_zones', [])
        if fault == 'zone-inverted':
            s = draw(st.integers(1, top))
            zl.append({'name': 'ZBAD', 'start': s, 'end': draw(st.integers(0, s - 1))})
        else:
            zl.append({'name': 'ZBAD', 'start': draw(st.integers(0, top)), 'end': top + draw(st.integers(1, 1000))})
    elif fault == 'origin-below-global':
        pre = cfg.setdefault('predefined', {})
        zl = [z for z in pre.get('memory_zones', []) if z['name'] != 'GLOBAL']
        s = draw(st.integers(1, top))
        zl.append({'name': 'GLOBAL', 'start': s, 'end': top})
        pre['memory_zones'] = zl
        for z in zl[:-1]:
            z['start'], z['end'] = s, top
        g['origin'] = draw(st.integers(0, s - 1))
    # informational
    elif fault == 'unknown-operand-type':
        cfg['operand_sets']['bad_set'] = {'operand_values': {'x': {'type': 'numerik', 'argument': {'size': 8, 'byte_align': True}}}}
    elif fault == 'unknown-position':
        cfg['operand_sets']['bad_set'] = {'operand_values': {'x': {'type': 'numeric', 'bytecode': {'value': 1, 'size': 2, 'position': 'infix'},
                                                                    'argument': {'size': 8, 'byte_align': True}}}}
    elif fault == 'instruction-without-bytecode':
        cfg['instructions']['zzq'] = {'operands': {'count': 0}}
    elif fault == 'register-as-enum-key':
        regs = list(g.get('registers') or []) or ['a']
        g['registers'] = regs
        cfg['operand_sets']['bad_set'] = {'operand_values': {'e': {'type': 'enumeration',
                                          'argument': {'size': 8, 'byte_align': True, 'value_dict': {regs[0]: 1}}}}}
    elif fault == 'non-semver-version':
        g['identifier'] = {'name': 'x', 'version': draw(st.sampled_from(['one', '1.x', 'v1.0.0.', '1..2']))}
    elif fault == 'deprecated-memory':
        cfg.setdefault('predefined', {})['memory'] = [{'name': 'm', 'address': 0, 'size': 1, 'value': 0}]
    return cfg


@st.composite
def _cases(draw, tier):
    kind = draw(st.sampled_from(['wellformed', 'fault', 'fault', 'minversion', 'minversion', 'require', 'require']))
    cfg = draw(isagen.full_isa())
    cfg['general'].pop('min_version', None)
    fmt = 'yaml' if isagen.has_int_keys(cfg) else draw(st.sampled_from(['yaml', 'json']))
    if kind == 'wellformed':
        return {'kind': kind, 'isa': cfg, 'fmt': fmt}
    if kind == 'fault':
        fault = draw(st.sampled_from(FAULTS * 3 + INFORMATIONAL))
        if fault == 'unknown-file-extension':
            return {'kind': kind, 'isa': cfg, 'fault': fault, 'fmt': 'txt'}
        return {'kind': kind, 'isa': apply_fault(cfg, fault, draw), 'fault': fault, 'fmt': 'yaml'}
    if kind == 'minversion':
        cfg['general']['min_version'] = draw(st.sampled_from(MIN_VERSIONS))
        return {'kind': kind, 'isa': cfg, 'fmt': fmt}
    name = draw(st.sampled_from(['tiny-cpu', 'bvf_isa', 'cpu.v2']))
    ver = draw(st.sampled_from(ISA_VERSIONS))
    scenario = draw(st.sampled_from(['any'] * 7 + ['version-zero']))
    if scenario == 'version-zero':
        ver = draw(st.sampled_from([0, 0.0, 0]))         # written as a bare number in the definition
    cfg['general']['identifier'] = {'name': name, 'version': ver}
    stem = None
    if draw(st.integers(0, 3)) == 0:
        # no name in the definition: the language is called after the configuration file (text before its extension)
        stem = draw(st.sampled_from(['tiny', 'tiny.v2', 'cpu.8bit.rev2', 'isa.yaml.bak']))
        if draw(st.booleans()):
            del cfg['general']['identifier']
            ver = '0.0.1'
        else:
            del cfg['general']['identifier']['name']
        pool = [stem, stem, stem.split('.')[0], 'other-cpu']
        name = stem
    else:
        pool = [name, name, name, 'other-cpu', name.upper()]
    req_name = draw(st.sampled_from(pool))
    if draw(st.integers(0, 4)) == 0:
        req = f'#require "{req_name}"'
        op = rv = None
    else:
        op = draw(st.sampled_from(OPS))
        rv = draw(st.sampled_from(ISA_VERSIONS + [ver]))
        if scenario == 'version-zero':
            rv = draw(st.sampled_from(['0.0.1', '0.0.0', '0.0.1']))      # version zero against its nearest neighbours
            req_name = name
        m_pre = re.match(r'^(\d+\.\d+\.\d+)(?:a|b|rc)\d+$', str(ver))
        if m_pre and draw(st.integers(0, 3)) != 0:
            rv = m_pre.group(1)          # a pre-release against the release it precedes
            op = draw(st.sampled_from(['<', '<', '<', '<=', '>', '>=', '==']))
        req = f'#require "{req_name} {op} {rv}"'
    misspelt = None
    if draw(st.integers(0, 5)) == 0:
        # the same requirement in a spelling the directive does not have: it must not be waved through if it is unmet
        body = req[len('#require "'):-1]
        misspelt = draw(st.sampled_from(['unquoted', 'single-quoted', 'operator-typo', 'operator-missing']))
        if misspelt == 'unquoted':
            req = '#require ' + body
        elif misspelt == 'single-quoted':
            req = "#require '" + body + "'"
        elif op is not None and misspelt == 'operator-typo':
            req = f'#require "{req_name} {dict([("==", "="), (">=", "=>"), ("<=", "=<"), (">", ">>"), ("<", "<<")])[op]} {rv}"'
        elif op is not None:
            req = f'#require "{req_name} {rv}"'
        else:
            misspelt = None
    case = {'kind': 'require', 'isa': cfg, 'fmt': fmt, 'require': req, 'req_name': req_name, 'op': op, 'req_version': rv,
            'stem': stem, 'isa_version': ver, 'misspelt': misspelt}
    if draw(st.integers(0, 3)) == 0:
        # a preprocessor symbol named like (a word of) the language: directive lines are not subject to substitution
        words = [w for w in re.split(r'[^A-Za-z0-9_]+', req_name) if len(w) >= 2 and not w[0].isdigit()]
        if words:
            case['define_word'] = draw(st.sampled_from(words))
    if draw(st.integers(0, 2)) == 0:
        # an earlier, satisfied requirement for the same language must not excuse a later one
        case['first'] = draw(st.sampled_from([f'#require "{name}"', f'#require "{name} >= 0.0.0"', f'#require "{name} == {ver}"']))
        case['second_in_include'] = draw(st.booleans())
    return case


def strategy(tier):
    return _cases(tier)


def execute(case, ctx):
    cfg = isagen.fix_int_keys(copy.deepcopy(case['isa']))
    kind = case['kind']
    if case['fmt'] == 'txt':
        _, text = isagen.dump_isa(cfg, 'yaml')
        fname = 'isa.txt'
    else:
        fname, text = isagen.dump_isa(cfg, case['fmt'])
    src = '.byte 1\n'
    expect = 'accepted'
    nontrivial = False
    tag = kind
    if kind == 'fault':
        tag = case['fault']
        expect = 'rejected' if case['fault'] in FAULTS else None
        nontrivial = True
    elif kind == 'minversion':
        run_v, min_v = running_versions()
        mv = cfg['general']['min_version']
        try:
            k = vkey(mv)
            newer = k > vkey(run_v)
            too_old = k < vkey(min_v)
            expect = 'rejected' if (newer or too_old) else 'accepted'
            lex_newer, lex_old = mv > run_v, mv < min_v
            nontrivial = (newer != lex_newer) or (too_old != lex_old)
            tag = 'minversion:' + ('newer-than-running' if newer else 'older-than-minimum' if too_old else 'satisfied')
        except ValueError:
            expect = None        # a spelling outside N.N.N[a|b|rc N] is not decided here
            tag = 'minversion:unusual-spelling'
    elif kind == 'require':
        src = case['require'] + '\n.byte 1\n'
        extra_files = {}
        if case.get('first'):
            if case.get('second_in_include'):
                src = case['first'] + '\n.byte 1\n#include "lib.asm"\n'
                extra_files['lib.asm'] = case['require'] + '\n.byte 2\n'
            else:
                src = case['first'] + '\n' + src
        if case.get('define_word'):
            src = f"#define {case['define_word']} 7\n" + src
        if case.get('stem'):
            isa_name = case['stem']
            fname = case['stem'] + '.' + fname.rsplit('.', 1)[1]
            isa_ver = case['isa_version']
        else:
            isa_name = cfg['general']['identifier']['name'].strip().replace(' ', '_')
            isa_ver = cfg['general']['identifier']['version']
        ok = case['req_name'] == isa_name
        if ok and case['op'] is not None:
            try:
                a, b = vkey(isa_ver), vkey(case['req_version'])
                ok = R.CMP[case['op']](a, b)
                sa, sb = str(isa_ver), str(case['req_version'])
                nontrivial = R.CMP[case['op']](sa, sb) != ok
            except ValueError:
                ok = None
        expect = None if ok is None else ('accepted' if ok else 'rejected')
        if case.get('misspelt') and expect == 'accepted':
            expect = None       # whether a misspelt but satisfied requirement is an error is not stated
        tag = 'require:' + ('name-mismatch' if case['req_name'] != isa_name else str(case['op'])) + \
              ('/after-an-earlier-require' if case.get('first') else '') + ('/language-named-after-the-file' if case.get('stem') else '') + \
              ('/misspelt-' + case['misspelt'] if case.get('misspelt') else '') + \
              ('/symbol-named-like-the-language' if case.get('define_word') else '')
    files = {fname: text, 'p.asm': src}
    if kind == 'require':
        files.update(extra_files)
    res = runner.run_forked(['compile', '-c', fname, '-o', 'out.bin', 'p.asm'], files)
    detail = {'kind': kind, 'what': tag, 'config_file': fname, 'config': text[:6000], 'source': src, 'expected': expect,
              'run': res.brief()}
    findings = []
    if res.klass == 'timeout':
        findings.append(Finding('C19/timeout', detail))
    elif expect == 'rejected' and res.klass == 'accepted':
        findings.append(Finding('C19/accepted-although-' + tag.replace(':', '-'), detail))
    elif expect == 'accepted' and res.klass != 'accepted':
        findings.append(Finding('C19/rejected-although-' + ('well-formed' if kind == 'wellformed' else tag.replace(':', '-')), detail))
    classes = ['kind:' + kind, 'what:' + tag, 'outcome:' + res.klass, 'asserted:' + str(expect is not None)]
    if kind == 'fault' and 'index_operands' in str((cfg.get('operand_sets') or {}).get('bad_set')):
        classes.append('undeclared-register-inside-a-register-indexed-operand:' + res.klass)
    sample = {'kind': kind, 'what': tag, 'expected': expect, 'tool': res.klass,
              'general': cfg.get('general'), 'source': src}
    return Outcome(findings, nontrivial, classes, 1, sample=sample)


def extra_phase(tier, seed):
    """The whole catalogue once on a fixed base (exhaustive over the catalogue) + all version pairs."""
    base = {
        'general': {'address_size': 16, 'endian': 'big', 'registers': ['a', 'x']},
        'operand_sets': {'imm': {'operand_values': {'i': {'type': 'numeric', 'argument': {'size': 8, 'byte_align': True}}}}},
        'instructions': {'ldi': {'bytecode': {'value': 1, 'size': 8}, 'operands': {'count': 1, 'operand_sets': {'list': ['imm']}}},
                         'nop': {'bytecode': {'value': 0, 'size': 8}}},
    }

    class FirstDraw:
        def __call__(self, strat):
            return strat.example() if False else _first(strat)
    findings, nt, samples, done = [], set(), [], {}
    import hypothesis
    for fault in FAULTS:
        with hypothesis.seed(seed) if False else _null():
            cfg = apply_fault(base, fault, _first)
        case = {'kind': 'fault', 'isa': cfg, 'fault': fault, 'fmt': 'yaml'}
        out = execute(case, {})
        done[fault] = 'rejected' if not out.findings else 'ACCEPTED'
        nt.add(digest(case))
        for f in out.findings:
            findings.append((f.sig, case, f.detail))
    for mv in MIN_VERSIONS:
        cfg = copy.deepcopy(base)
        cfg['general']['min_version'] = mv
        case = {'kind': 'minversion', 'isa': cfg, 'fmt': 'yaml'}
        out = execute(case, {})
        done['min_version ' + mv] = [c for c in out.classes if c.startswith('outcome:')][0]
        nt.add(digest(case))
        for f in out.findings:
            findings.append((f.sig, case, f.detail))
    return {'evals': len(done), 'cases': len(done), 'findings': findings, 'nt': nt,
            'report': {'catalogue_enumerated_on_fixed_base': done, 'exhaustive_over_catalogue': True},
            'samples': [{'fixed_base_catalogue': done}]}


class _null:
    def __enter__(self):
        return self

    def __exit__(self, *a):
        return False


def _first(strat):
    """Deterministic stand-in for draw(): the simplest element of a strategy."""
    from hypothesis import find
    return find(strat, lambda x: True, settings=hypothesis_settings())


def hypothesis_settings():
    from hypothesis import settings, Phase
    return settings(database=None, max_examples=50, phases=[Phase.generate, Phase.shrink], derandomize=True)

"""C13 - variant and operand selection follows the documented priority only."""
from __future__ import annotations
import copy

from hypothesis import strategies as st

from .. import isagen, refmodel as R, runner
from ..driver import Finding, Outcome

ID = 'C13'
LEVEL = 'exploration'
TECHNIQUE = ('property-based testing (Hypothesis): deliberately ambiguous generated ISA definitions x statements; the '
             'variant/alternative chosen by the real CLI (read from opcode and operand codes in the image) is compared '
             'with an independent matcher implementing only the documented priority')
RULE = ('ISA definitions with 2..4 variants per mnemonic drawn over 1..2 shared operand sets (so several variants '
        'accept the same operand text), specific_operands and operand_sets in one variant, disallowed_pairs, '
        'enumeration keys that are also defined constants, every variant with its own opcode and every alternative '
        'with its own code; statements are generated from a random variant/alternative choice and then optionally '
        'perturbed (a register where an expression is expected, an operand added/removed, an identifier that is an '
        'enumeration key). Non-trivial = at least two variants accept the statement in isolation, or specific and '
        'set patterns of the chosen variant both accept, or a disallowed pair was skipped, or an enumeration key '
        'that is also a label was offered, or the statement must be rejected. Distinct = SHA-1 of the case JSON.')
ASSUMPTIONS = [
    'one operand set never holds two alternatives that read the same operand text (two plain-expression kinds, '
    'enumeration next to numeric_enumeration, decorated next to undecorated forms of one register): their mutual '
    'order is not stated by the property',
    'an enumeration key at the head of a larger expression ("zf + 1") is an expression over a label of that name, not '
    'the key; a key that is not an identifier ("eq.l") is read by no expression alternative',
    'an offset is never written for an indirect register configured without one',
    "the 'empty' operand type is only used as the trailing member of a specific operand list",
]
BUDGET = {'quick': 3200, 'thorough': 150000}
LEVEL_TEXT = ('Exploration over generated ambiguous definitions: selection order is a property of the definition '
              'structure, so the generator manufactures overlap (shared sets, specific+set patterns, disallowed '
              'pairs, key/label clashes) and an independent matcher states only the documented priority. The image '
              'identifies the chosen variant and alternatives.')
LEVEL_NOTE = 'Trusted: bvf/refmodel.py match/select/encode; generator exclusions in evidence assumptions.'


@st.composite
def _cases(draw, tier):
    cfg = draw(isagen.full_isa(max_mnemonics=2, max_variants=4, address_sizes=(12, 16, 24), with_zones=False,
                               spec_bias=True))
    forced = None
    if draw(st.booleans()):
        # numeric alternatives that must also be a valid address (another branch of the operand reader), in the sets
        # and in the listed combinations
        def flip(a):
            if a['type'] in ('numeric', 'indirect_numeric', 'deferred_numeric') and draw(st.integers(0, 3)) != 0:
                a['argument']['valid_address'] = True
        for s_ in cfg['operand_sets'].values():
            for a in s_['operand_values'].values():
                flip(a)
        for ic in cfg['instructions'].values():
            for v_ in ([ic] if 'bytecode' in ic else []) + list(ic.get('variants') or []):
                for sp_ in ((v_.get('operands') or {}).get('specific_operands') or {}).values():
                    for a in sp_['list'].values():
                        flip(a)
    if draw(st.integers(0, 7)) == 0:
        # a mnemonic whose first variant reads enumeration keys only and whose second reads any expression
        keys = draw(st.lists(st.sampled_from([k for k in isagen.ENUM_KEYS if k.isidentifier()]), min_size=1, max_size=3, unique=True))
        n = draw(isagen.bits(1, 8))
        cfg['operand_sets']['kset'] = {'operand_values': {'key': {
            'type': 'enumeration', 'argument': {'size': n, 'byte_align': draw(st.booleans()),
                                                'value_dict': {k: draw(isagen.unsigned_value(n)) for k in keys}}}}}
        cfg['operand_sets']['nset'] = {'operand_values': {'num': {'type': 'numeric', 'argument': {'size': 8, 'byte_align': True}}}}
        cfg['instructions']['tsk'] = {'variants': [
            {'bytecode': {'value': 1, 'size': 4}, 'operands': {'count': 1, 'operand_sets': {'list': ['kset']}}},
            {'bytecode': {'value': 2, 'size': 4}, 'operands': {'count': 1, 'operand_sets': {'list': ['nset']}}}]}
        forced = 'tsk'
    elif draw(st.integers(0, 7)) == 0 and cfg['general'].get('registers'):
        # a mnemonic whose first variant reads a number (plain, in brackets, or one that must be a valid address) and
        # whose second reads a register, plain or in brackets: a register name is never taken for a number
        r = draw(st.sampled_from(sorted(cfg['general']['registers'])))
        nk = draw(st.sampled_from(['numeric', 'indirect_numeric']))
        num = {'type': nk, 'argument': {'size': 16, 'byte_align': True}}
        if draw(st.booleans()):
            num['argument']['valid_address'] = True
        reg = {'type': 'register' if nk == 'numeric' else 'indirect_register', 'register': r, 'bytecode': {'value': 1, 'size': 4}}
        cfg['operand_sets']['tj_num'] = {'operand_values': {'num': num}}
        cfg['operand_sets']['tj_reg'] = {'operand_values': {'reg': reg}}
        first = {'count': 1, 'operand_sets': {'list': ['tj_num']}}
        if draw(st.booleans()):
            first = {'count': 1, 'specific_operands': {'only': {'list': {'num': copy.deepcopy(num)}}}}
        cfg['instructions']['tjr'] = {'variants': [
            {'bytecode': {'value': 0xC, 'size': 4}, 'operands': first},
            {'bytecode': {'value': 0xE, 'size': 4}, 'operands': {'count': 1, 'operand_sets': {'list': ['tj_reg']}}}]}
        forced = 'tjr'
    isa = R.Isa(cfg)
    keys_in_use = set()
    for s in cfg['operand_sets'].values():
        for a in s['operand_values'].values():
            if a['type'] == 'enumeration':
                keys_in_use |= set(a['argument']['value_dict'])
            for ia in (a.get('index_operands') or {}).values():
                if ia['type'] == 'enumeration':
                    keys_in_use |= set(ia['argument']['value_dict'])
    decorated = set()
    for s_ in cfg['operand_sets'].values():
        for a in s_['operand_values'].values():
            if a['type'] == 'register' and a.get('decorator'):
                decorated.add((a['register'], a['decorator']['type'], bool(a['decorator'].get('is_prefix', False))))
    mn = forced or draw(st.sampled_from(sorted(isa.instructions)))
    variants = isa.variants(mn)
    vi = 0 if forced else draw(st.integers(0, len(variants) - 1))
    if forced == 'tjr' and draw(st.integers(0, 3)) != 0:
        vi = 1
    v = variants[vi]
    oc = v.get('operands')
    alts = []
    if oc and oc.get('count', 0) > 0:
        paths = [p for p in ('specific_operands', 'operand_sets') if p in oc]
        path = draw(st.sampled_from(paths))
        if path == 'specific_operands':
            alts = list(draw(st.sampled_from(list(oc['specific_operands'].values())))['list'].items())
        else:
            for sname in oc['operand_sets']['list']:
                ov = cfg['operand_sets'][sname]['operand_values']
                # prefer a register that the ISA also decorates on the other side, where there is one
                both = [a for a in sorted(ov) if ov[a]['type'] == 'register' and ov[a].get('decorator') and
                        (ov[a]['register'], ov[a]['decorator']['type'], not ov[a]['decorator'].get('is_prefix', False))
                        in decorated]
                aid = draw(st.sampled_from(both if both and draw(st.booleans()) else sorted(ov)))
                alts.append((aid, ov[aid]))
            dp = oc['operand_sets'].get('disallowed_pairs')
            if dp and draw(st.booleans()):
                # the disallowed combination itself, or - where the sets allow it - the same two alternatives the other
                # way round (which is a different combination and not disallowed)
                pair = list(dp[0])
                if draw(st.booleans()):
                    pair.reverse()
                sl = oc['operand_sets']['list']
                if len(pair) == len(sl) and all(a in cfg['operand_sets'][sn]['operand_values'] for a, sn in zip(pair, sl)):
                    alts = [(a, cfg['operand_sets'][sn]['operand_values'][a]) for a, sn in zip(pair, sl)]
    glo, ghi = isa.zones['GLOBAL']
    address = draw(st.integers(glo + 64, ghi - 300))
    consts = {'kval': draw(st.integers(0, 3000))}
    keyconsts = {k: draw(st.integers(0, 3)) for k in sorted(keys_in_use) if k.isidentifier() and draw(st.booleans())}
    place = {'address': address, 'consts': consts, 'zones': isa.zones, 'size_hint': 4}
    ops = []
    for aid, alt in alts:
        if alt['type'] == 'empty':
            continue
        o = draw(isagen.operand_for(alt, None, place))
        if o is None:
            return {'skip': 'no operand value satisfies the constraints', 'isa': cfg}
        ops.append(o)
    regname_const = None
    perturb = draw(st.sampled_from(['none', 'none', 'none', 'reg', 'reg', 'reg', 'drop', 'add', 'keylabel', 'keylabel', 'keyplus', 'keyplus',
                                    'garbage', 'garbage', 'regnear', 'regnear', 'regoffset', 'regoffset', 'regspell', 'regspell']))
    regs = isa.registers
    if perturb == 'reg' and ops and regs:
        i = draw(st.integers(0, len(ops) - 1))
        # (rather in a position whose numeric alternative must also be a valid address, when there is one)
        va = [j for j, (aid, alt) in enumerate([a for a in alts if a[1]['type'] != 'empty'])
              if (alt.get('argument') or {}).get('valid_address') and j < len(ops)]
        if va and draw(st.booleans()):
            i = draw(st.sampled_from(va))
        ops[i] = {'k': 'reg', 'r': draw(st.sampled_from(regs)), 'deco': None}
    elif perturb == 'drop' and ops:
        ops.pop(draw(st.integers(0, len(ops) - 1)))
    elif perturb == 'add':
        ops.insert(draw(st.integers(0, len(ops))), {'k': 'expr', 'e': ['num', draw(st.integers(0, 9)), 'dec']})
    elif perturb == 'regspell' and ops and regs:
        # a literal whose digits or character happen to spell a register name is a number all the same: $a, $ab, 'x'
        spell = [['num', int(r, 16), 'hex$'] for r in regs if all(c in '0123456789abcdef' for c in r.lower())]
        spell += [['num', ord(r), 'chr'] for r in regs if len(r) == 1]
        idxs = [i for i, o in enumerate(ops) if o['k'] == 'expr']
        if spell and idxs:
            i = draw(st.sampled_from(idxs))
            lit = draw(st.sampled_from(spell))
            ops[i] = {'k': 'expr', 'e': draw(st.sampled_from([lit, ['bin', '+', lit, ['num', draw(st.integers(0, 3)), 'dec']]]))}
    elif perturb == 'regoffset' and ops and regs:
        # a register name, in any letter case, is not a number: not as the offset of an indirect register either
        idxs = [i for i, o in enumerate(ops) if o['k'] == 'indreg']
        indexed_bases = {a['register'].lower() for s_ in cfg['operand_sets'].values() for a in s_['operand_values'].values()
                         if a['type'] == 'indirect_indexed_register'}
        idxs = [i for i in idxs if ops[i]['r'].lower() not in indexed_bases]
        if idxs:
            i = draw(st.sampled_from(idxs))
            r = draw(st.sampled_from(regs))
            r = draw(st.sampled_from([r, r.upper(), r.swapcase(), r.upper()]))
            ops[i] = dict(ops[i], sign='+', off=['lab', r])
            if r not in regs and r.isidentifier():
                regname_const = r          # a constant may carry that spelling; it is still the register's name
    elif perturb == 'regnear' and ops:
        # a register name with one character changed (the dot of "r1.w" replaced, a letter appended) is not that register
        idxs = [i for i, o in enumerate(ops) if o['k'] in ('reg', 'indreg') and o.get('deco') is None and o.get('off') is None]
        dotted = [i for i in idxs if '.' in ops[i]['r']]
        if idxs:
            i = draw(st.sampled_from(dotted or idxs))
            r = ops[i]['r']
            near = r.replace('.', draw(st.sampled_from(['z', '_', '0']))) if '.' in r else r + draw(st.sampled_from(['q', '_', '9']))
            if near.lower() not in [x.lower() for x in isa.registers]:
                ops[i] = {'k': 'raw', 'text': near if ops[i]['k'] == 'reg' else '[' + near + ']'}
    elif perturb == 'garbage' and not ops:
        # a statement without operands followed by separators only
        ops = [{'k': 'raw', 'text': draw(st.sampled_from([',', ', ,', ',,']))}]
    elif perturb == 'garbage' and ops:
        # an acceptable operand followed by text that belongs to nothing: no alternative reads the whole of it
        i = draw(st.integers(0, len(ops) - 1))
        ops[i] = {'k': 'raw', 'text': isagen.render_operand(ops[i]) + draw(st.sampled_from([' @', ' !', ' ~', ' 7', ' }', '}', ' ]', ' )', '?', ' $']))}
    elif perturb == 'keyplus' and ops and keys_in_use:
        # an enumeration key followed by more text is an expression over a label of that name, not the key
        idxs = [i for i, o in enumerate(ops) if o['k'] in ('expr', 'enum')]
        idents = sorted(k for k in keys_in_use if k.isidentifier())
        if idxs and idents:
            i = draw(st.sampled_from(idxs))
            key = ops[i]['key'] if ops[i]['k'] == 'enum' and ops[i]['key'].isidentifier() else draw(st.sampled_from(idents))
            ops[i] = {'k': 'expr', 'e': ['bin', draw(st.sampled_from(['+', '-', '|'])), ['lab', key], ['num', draw(st.integers(0, 3)), 'dec']]}
    elif perturb == 'keylabel' and ops and keys_in_use:
        idxs = [i for i, o in enumerate(ops) if o['k'] in ('expr', 'enum') or
                (o['k'] in ('idxreg', 'indidx') and o['idx']['k'] in ('expr', 'enum'))]
        idents = sorted(k for k in keys_in_use if k.isidentifier())
        if idxs and idents:
            i = draw(st.sampled_from(idxs))
            key_as_label = {'k': 'expr', 'e': ['lab', draw(st.sampled_from(idents))]}
            if ops[i]['k'] in ('idxreg', 'indidx'):
                ops[i] = dict(ops[i], idx=key_as_label)
            else:
                ops[i] = key_as_label
    if regname_const is not None:
        keyconsts = dict(keyconsts)
        keyconsts[regname_const] = draw(st.integers(0, 3))
    # an earlier statement with the same mnemonic, generated for another variant: selection is per statement
    pre_ops = None
    if len(variants) > 1 and draw(st.booleans()):
        v2 = variants[draw(st.integers(0, len(variants) - 1))]
        oc2 = v2.get('operands')
        alts2 = []
        if oc2 and oc2.get('count', 0) > 0:
            path2 = draw(st.sampled_from([p for p in ('specific_operands', 'operand_sets') if p in oc2]))
            if path2 == 'specific_operands':
                alts2 = list(draw(st.sampled_from(list(oc2['specific_operands'].values())))['list'].items())
            else:
                for sname in oc2['operand_sets']['list']:
                    ov = cfg['operand_sets'][sname]['operand_values']
                    aid = draw(st.sampled_from(sorted(ov)))
                    alts2.append((aid, ov[aid]))
        place2 = {'address': glo + 8, 'consts': consts, 'zones': isa.zones, 'size_hint': 4}
        pre_ops = []
        for aid, alt in alts2:
            if alt['type'] == 'empty':
                continue
            o = draw(isagen.operand_for(alt, None, place2))
            if o is None:
                pre_ops = None
                break
            pre_ops.append(o)
    # the earlier statement may also be this very statement with an enumeration key written in another letter case: that
    # is a label of its own (keys are case sensitive) and says nothing about the key
    twin_i = [i for i, o in enumerate(ops) if o['k'] == 'enum' and o['key'].isidentifier() and o['key'].swapcase() != o['key']]
    if twin_i and draw(st.booleans()):
        i = draw(st.sampled_from(twin_i))
        other = draw(st.sampled_from(sorted({ops[i]['key'].lower(), ops[i]['key'].upper(), ops[i]['key'].swapcase()} - {ops[i]['key']})))
        if other not in keys_in_use:
            keyconsts = dict(keyconsts)
            keyconsts[other] = draw(st.integers(0, 3))
            pre_ops = [dict(o) for o in ops]
            pre_ops[i] = {'k': 'expr', 'e': ['lab', other]}
    return {'isa': cfg, 'mn': mn, 'ops': ops, 'address': address, 'consts': consts, 'keyconsts': keyconsts,
            'perturb': perturb, 'variant_intended': vi, 'pre_ops': pre_ops, 'pre_address': glo + 8}


def strategy(tier):
    return _cases(tier)


def ambiguity(isa, case):
    kinds = set()
    try:
        accepting = []
        for i, v in enumerate(isa.variants(case['mn'])):
            try:
                if R.match_variant(v, case['ops'], isa) is not None:
                    accepting.append(i)
            except R.Unspecified:
                pass
        if len(accepting) >= 2:
            kinds.add('several-variants-accept')
        if accepting:
            v = isa.variants(case['mn'])[accepting[0]]
            oc = v.get('operands') or {}
            if 'specific_operands' in oc and 'operand_sets' in oc:
                only_sets = {'bytecode': v['bytecode'], 'operands': {k: w for k, w in oc.items() if k != 'specific_operands'}}
                only_spec = {'bytecode': v['bytecode'], 'operands': {k: w for k, w in oc.items() if k != 'operand_sets'}}
                if R.match_variant(only_sets, case['ops'], isa) is not None and \
                        R.match_variant(only_spec, case['ops'], isa) is not None:
                    kinds.add('specific-and-set-both-accept')
        for i, v in enumerate(isa.variants(case['mn'])):
            oc = v.get('operands') or {}
            s = oc.get('operand_sets')
            if s and s.get('disallowed_pairs') and (not accepting or i <= accepting[0] or True):
                free = {'bytecode': v['bytecode'], 'operands': {**oc, 'operand_sets': {k: w for k, w in s.items()
                                                                                      if k != 'disallowed_pairs'}}}
                free['operands'].pop('specific_operands', None)
                try:
                    if R.match_variant(free, case['ops'], isa) is not None and i not in accepting:
                        kinds.add('disallowed-pair-skipped')
                except R.Unspecified:
                    pass
    except R.Unspecified:
        pass
    for o in case['ops']:
        if o['k'] == 'expr' and o['e'][0] == 'lab' and o['e'][1] in case['keyconsts']:
            kinds.add('enum-key-is-also-a-label')
        if o['k'] in ('idxreg', 'indidx') and o['idx']['k'] in ('expr', 'enum'):
            ix = o['idx']
            name = ix['e'][1] if ix['k'] == 'expr' and ix['e'][0] == 'lab' else ix.get('key')
            if name in case['keyconsts']:
                kinds.add('index-enum-key-is-also-a-label')
    if case['perturb'] == 'reg':
        kinds.add('register-offered')
    decorated = set()
    for s_ in case['isa']['operand_sets'].values():
        for a in s_['operand_values'].values():
            if a['type'] == 'register' and a.get('decorator'):
                decorated.add((a['register'].lower(), a['decorator']['type'], bool(a['decorator'].get('is_prefix', False))))
    for o in case['ops']:
        if o['k'] == 'reg' and o.get('deco') and (o['r'].lower(), o['deco'][0], not o['deco'][1]) in decorated:
            kinds.add('register-decorated-on-either-side-in-the-isa')
    return kinds


def execute(case, ctx):
    if 'skip' in case:
        return Outcome(classes=['skipped:' + case['skip']], evals=0, excluded=[case['skip']])
    cfg = isagen.fix_int_keys(case['isa'])
    isa = R.Isa(cfg)
    fname, text = isagen.dump_isa(cfg, 'yaml')
    consts = dict(case['consts'])
    consts.update(case['keyconsts'])
    src = ''.join(f'{k} = {v}\n' for k, v in consts.items())
    pre_ok = False
    if case.get('pre_ops') is not None:
        # only when the reference says that earlier statement assembles on its own
        try:
            pre_bytes = R.encode_instruction(isa, case['mn'], case['pre_ops'],
                                             lambda n: consts[n] if n in consts else (_ for _ in ()).throw(R.Reject('unresolved')),
                                             case['pre_address'])
            pre_ok = case['pre_address'] + len(pre_bytes) <= case['address']
        except (R.Reject, R.Unspecified):
            pre_ok = False
    if pre_ok:
        src += f'.org {case["pre_address"]}\n' + isagen.render_statement(case['mn'], case['pre_ops']) + '\n'
    src += f'.org {case["address"]}\n' + isagen.render_statement(case['mn'], case['ops']) + '\n'

    regnames = {r.lower() for r in isa.registers}

    def resolve(name):
        if name.lower() in regnames:
            raise R.Reject('register name (in any letter case) used as a number')
        if name in consts:
            return consts[name]
        raise R.Reject('unresolved label ' + name)
    chosen = None
    try:
        chosen = R.selected_variant_index(isa, case['mn'], case['ops'])
        want = R.encode_instruction(isa, case['mn'], case['ops'], resolve, case['address'])
        verdict, why = 'accept', ''
    except R.Reject as r:
        want, verdict, why = None, 'reject', r.why
    except R.Unspecified as u:
        return Outcome(classes=['unspecified:' + str(u)], evals=0, excluded=['unspecified: ' + str(u)])
    n = len(want) if want is not None else 1
    argv = ['compile', '-c', fname, '-o', 'out.bin', '-s', str(case['address']), '-e', str(case['address'] + n - 1), 'p.asm']
    res = runner.run_forked(argv, {fname: text, 'p.asm': src})
    amb = ambiguity(isa, case)
    detail = {'source': src, 'model': verdict + (': ' + why if why else ''), 'model_variant': chosen,
              'intended_variant': case['variant_intended'], 'ambiguity': sorted(amb), 'run': res.brief(), 'argv': argv}
    findings = []
    tag = sorted(amb)[0] if amb else 'plain'
    if res.klass == 'timeout':
        findings.append(Finding('C13/timeout', detail))
    elif verdict == 'reject' and res.klass == 'accepted':
        findings.append(Finding(f'C13/unacceptable-statement-assembled/{tag}', detail))
    elif verdict == 'accept' and res.klass != 'accepted':
        findings.append(Finding(f'C13/acceptable-statement-rejected/{tag}', detail))
    elif verdict == 'accept':
        detail['expected'] = want.hex()
        if res.outputs.get('out.bin') != want:
            findings.append(Finding(f'C13/other-encoding-selected/{tag}', detail))
    nontrivial = bool(amb) or verdict == 'reject'
    classes = ['model:' + verdict, 'outcome:' + res.klass, 'perturb:' + case['perturb']] + ['amb:' + a for a in sorted(amb)] + \
              (['earlier-statement-of-same-mnemonic'] if pre_ok else [])
    sample = {'statement': isagen.render_statement(case['mn'], case['ops']), 'variants': len(isa.variants(case['mn'])),
              'model_variant': chosen, 'model': verdict + (': ' + why if why else ''), 'ambiguity': sorted(amb),
              'expected_bytes': want.hex() if want is not None else None}
    return Outcome(findings, nontrivial, classes, 1, sample=sample)

"""C03 - the binary image is a faithful window onto the assembled memory map."""
from __future__ import annotations

from hypothesis import strategies as st

from .. import isagen, proggen as G, refmodel as R, runner
from ..driver import Finding, Outcome
from .c02 import run_layout_case

ID = 'C03'
LEVEL = 'exploration'
TECHNIQUE = ('property-based testing (Hypothesis): generated sparse programs x generated -s/-e/-f command lines whose '
             'bounds are chosen from the line extents of the reference layout (line start, strictly inside a line, '
             'one before/after, gap, beyond/before all code); whole output file compared with the window of the '
             'reference memory map')
RULE = ('Programs as in C02 (origins, zones, muted regions, predefined data blocks, fills) and a window drawn relative '
        'to the reference line extents; -e omitted in a third of the cases; fill 0..255. Non-trivial = a window edge '
        'strictly inside a multi-byte line, or a gap / muted line / predefined block inside the window, or a default '
        'end with non-byte lines or muted lines after the last emitted byte. In a quarter of the cases a longer stale '
        'file already exists at the output path. Distinct = SHA-1 of the case JSON.')
ASSUMPTIONS = [
    'end >= start; when -e is omitted the window start is not beyond the last emitted byte (otherwise unspecified)',
    'windows are bounded to 128 KiB by the harness',
    'an #unmute/#emit while nothing is muted has no effect: the mute depth never goes below zero (pinned from the tree, no document states it)',
]
BUDGET = {'quick': 4000, 'thorough': 200000}
LEVEL_TEXT = ('Exploration: window arithmetic must be right for every combination of line extents and bounds; the '
              'generator derives the bounds from the extents themselves so that every relative position class '
              '(edge on/inside/next to a line, gaps, muted, predefined, default end) is hit in every run.')
LEVEL_NOTE = 'Trusted: bvf/refmodel.py Layouter.image; generator exclusions in evidence assumptions.'


@st.composite
def _cases(draw, tier):
    cfg = draw(G.layout_isa(zones=True, blocks=True))
    b, feats = G.general_program(draw, cfg, max_steps=20, extra=['midlabel', 'midlabel'])
    back = [ln for ln in b.lay.lines if ln['has_bytes'] and ln['size'] >= 1 and ln['zone'] == 'GLOBAL' and not ln['muted']]
    if back and not b.dead and b.lay.mute == 0 and not b.lay.conds and draw(st.integers(0, 4)) == 0:
        # an origin back to the first address of an earlier statement and a line without bytes there: the earlier
        # statement's bytes stay in the image
        ln = draw(st.sampled_from(back))
        b.add({'t': 'org', 'e': b.lit(ln['addr'])})
        b.add(draw(st.sampled_from([{'t': 'fill', 'n': ['num', 0, 'dec'], 'v': ['num', 7, 'dec']}, {'t': 'zero', 'n': ['num', 0, 'dec']}])))
        feats.add('byte-less-line-at-the-address-of-an-earlier-statement')
    if draw(st.booleans()):
        # trailing lines that emit nothing, to exercise the default end
        for _ in range(draw(st.integers(1, 3))):
            k = draw(st.sampled_from(['label', 'mutedbyte', 'zero0', 'comment']))
            if k == 'label':
                free = [n for n in ['tail1', 'tail2', 'tail3'] if not b.defined.get(n)]
                if free:
                    b.add({'t': 'label', 'name': free[0]})
                    b.defined[free[0]] = True
            elif k == 'mutedbyte' and b.room() > 4:
                b.add({'t': 'mute', 'kw': 'mute'})
                b.add({'t': 'data', 'd': '.byte', 'vals': [['num', 0x77, 'dec']]})
                b.add({'t': 'unmute', 'kw': 'unmute'})
                feats.add('muted')
            elif k == 'zero0':
                b.add({'t': 'zero', 'n': ['num', 0, 'dec']})
            else:
                b.add({'t': 'comment', 'text': 'tail'})
        feats.add('trailing-nonbyte')
    ext = [(ln['addr'], ln['addr'] + ln['size'] - 1) for ln in b.lay.lines if ln['has_bytes'] and ln['size'] > 0]
    ext += [(blk['addr'], blk['addr'] + blk['size'] - 1) for blk in b.lay.blocks if blk['size'] > 0]
    top = (1 << b.isa.address_size) - 1
    if not ext:
        return {'isa': cfg, 'items': b.items, 'start': b.lo, 'end': b.lo + 4, 'fill': 0, 'feats': sorted(feats)}

    def edge(kind_pool):
        s, e = draw(st.sampled_from(ext))
        k = draw(st.sampled_from(kind_pool))
        if k == 'at-start':
            return s
        if k == 'at-end':
            return e
        if k == 'inside' and e > s:
            return draw(st.integers(s + 1, e)) if draw(st.booleans()) else draw(st.integers(s, e - 1))
        if k == 'before':
            return max(0, s - draw(st.integers(1, 3)))
        if k == 'after':
            return min(top, e + draw(st.integers(1, 3)))
        if k == 'far-before':
            return max(0, min(x[0] for x in ext) - draw(st.integers(1, 40)))
        if k == 'far-after':
            return min(top, max(x[1] for x in ext) + draw(st.integers(1, 40)))
        return s
    start = edge(['at-start', 'at-start', 'inside', 'inside', 'before', 'after', 'far-before', 'far-before', 'at-end'])
    if draw(st.integers(0, 2)) == 0:
        end = None
    else:
        end = edge(['at-end', 'at-end', 'inside', 'inside', 'before', 'after', 'far-after', 'far-after', 'at-start'])
        if end < start:
            start, end = end, start
        if min(x[0] for x in ext) == 0 and draw(st.integers(0, 5)) == 0:
            start, end = 0, 0        # the smallest explicit window
        elif top <= 0xFFFF and draw(st.integers(0, 7)) == 0:
            # an explicit window that ends beyond the last address of the address space (and of GLOBAL): it has the length
            # asked for, and nothing but fill up there
            end = top + draw(st.integers(1, 40))
    items = b.items
    if not b.lay.blocks and draw(st.integers(0, 11)) == 0:
        # the whole program muted: addresses are assigned, nothing reaches the image
        items = [{'t': 'mute', 'kw': 'mute'}] + items
        feats.add('everything-muted')
    return {'isa': cfg, 'items': items, 'start': start, 'end': end, 'fill': draw(st.integers(0, 255)),
            'feats': sorted(feats), 'stale_output': draw(st.integers(0, 3)) == 0,
            'verbose': draw(st.sampled_from([0, 0, 0, 1, 2, 3]))}


def strategy(tier):
    return _cases(tier)


def classify_window(lay, start, end):
    cl = set()
    lines = [ln for ln in lay.lines if ln['has_bytes'] and ln['size'] > 0] + [b for b in lay.blocks if b['size'] > 0]
    if not lay.memory:
        # nothing emitted at all (everything muted, or no byte-producing line): an explicit window is all fill
        return {'explicit-window-over-a-program-that-emits-nothing'} | \
            ({'muted-line-in-window'} if any(ln['muted'] and ln['addr'] <= end and ln['addr'] + ln['size'] - 1 >= start
                                             for ln in lines) else set())
    eff_end = end if end is not None else max(lay.memory)
    for ln in lines:
        s, e = ln['addr'], ln['addr'] + ln['size'] - 1
        if ln['muted']:
            if s <= eff_end and e >= start:
                cl.add('muted-line-in-window')
            continue
        if s < start <= e:
            cl.add('start-inside-line')
        if s <= eff_end < e:
            cl.add('end-inside-line')
        if ln.get('kind') == 'predefined' and s <= eff_end and e >= start:
            cl.add('predefined-block-in-window')
    occ = set(lay.memory)
    if any(a not in occ for a in range(max(start, min(occ)), min(eff_end, max(occ)) + 1)):
        cl.add('gap-in-window')
    if end is None:
        cl.add('default-end')
        last = max(occ)
        if any(ln['addr'] > last or (ln['muted'] and ln['addr'] + ln['size'] - 1 >= last) for ln in lay.lines):
            cl.add('default-end-with-trailing-non-emitting-lines')
    if start > max(occ):
        cl.add('window-beyond-code')
    if eff_end < min(occ):
        cl.add('window-before-code')
    return cl


def execute(case, ctx):
    try:
        cfg, isa, fname, files, verdict, lay = run_layout_case(ID, case)
        if verdict != 'accepted':
            return Outcome(classes=['program-rejected-by-model'], evals=0)
        if not lay.memory and case['end'] is None:
            return Outcome(classes=['no-bytes-and-no-explicit-end'], evals=0)
        want = lay.image(case['start'], case['end'], case['fill'])
    except R.Unspecified as u:
        return Outcome(classes=['unspecified:' + str(u).split(':')[0]], evals=0, excluded=['unspecified: ' + str(u).split(':')[0]])
    argv = ['compile', '-c', fname, '-o', 'out.bin', '-s', str(case['start'])]
    if case['end'] is not None:
        argv += ['-e', str(case['end'])]
    argv += ['-f', str(case['fill'])] + ['-v'] * case.get('verbose', 0) + ['main.asm']      # logging changes no output
    if case.get('stale_output'):
        # an older, longer image already sits at the output path: nothing of it may survive
        files['out.bin'] = b'\x5a' * (len(want) + 41)
    res = runner.run_forked(argv, files)
    cl = classify_window(lay, case['start'], case['end'])
    detail = {'source': files['main.asm'], 'general': cfg['general'], 'predefined': cfg.get('predefined'), 'argv': argv,
              'window_classes': sorted(cl), 'run': res.brief(),
              'model_lines': [(ln['addr'], ln['size'], ln['muted'], G.render_item(ln['item'])) for ln in lay.lines][:60],
              'expected_image': want.hex() if len(want) <= 600 else f'<{len(want)} bytes>', 'expected_len': len(want)}
    findings = []
    if res.klass == 'timeout':
        findings.append(Finding('C03/timeout', detail))
    elif res.klass != 'accepted':
        findings.append(Finding('C03/valid-program-rejected', detail))
    else:
        got = res.outputs.get('out.bin')
        if got is None:
            findings.append(Finding('C03/no-image', detail))
        elif got != want:
            detail['got_len'] = len(got)
            if len(got) != len(want):
                if case['end'] is None:
                    sig = 'C03/wrong-default-end'
                elif 'end-inside-line' in cl:
                    sig = 'C03/line-straddling-end-written-past-it'
                else:
                    sig = 'C03/wrong-length'
            elif 'start-inside-line' in cl:
                sig = 'C03/line-straddling-start-dropped'
            else:
                sig = 'C03/wrong-content'
            findings.append(Finding(sig, detail))
    nt = bool(cl & {'start-inside-line', 'end-inside-line', 'gap-in-window', 'muted-line-in-window',
                    'explicit-window-over-a-program-that-emits-nothing',
                    'predefined-block-in-window', 'default-end-with-trailing-non-emitting-lines'})
    classes = ['outcome:' + res.klass] + ['win:' + c for c in sorted(cl)] + (['stale-output-file-present'] if case.get('stale_output') else [])
    sample = {'source': files['main.asm'], 'argv': argv, 'window_classes': sorted(cl), 'expected_len': len(want)}
    return Outcome(findings, nt, classes, 1, sample=sample)

"""C12 - configured operand value constraints are enforced, not silently bypassed."""
from __future__ import annotations

from hypothesis import strategies as st

from .. import isagen, refmodel as R, runner
from ..driver import Finding, Outcome

ID = 'C12'
LEVEL = 'exploration'
TECHNIQUE = ('property-based testing (Hypothesis): generated constraint configurations x operand values on and '
             'adjacent to every boundary; accept/reject and encoded field compared with an independent constraint '
             'model through the real CLI')
RULE = ('One instruction with one constrained operand is generated (numeric +- valid_address, numeric_bytecode '
        'min/max, numeric_enumeration, address +- named zone +- sliced with matching high bits, relative_address '
        '+- min/max +- offset-from-end +- braces, indirect/deferred numeric, indirect-register offset; field widths '
        '1..64). The operand value is drawn from the boundary set of every constraint in force (min-1,min,max,max+1; '
        'zone start-1,start,end,end+1; -2^(n-1)-1,-2^(n-1),2^n-1,2^n; members/non-members; equal/different high '
        'address bits) or from the interior. Non-trivial = the value lies within distance 1 of a boundary of a '
        'constraint in force. Distinct = distinct SHA-1 of the canonical case JSON.')
ASSUMPTIONS = [
    'slice_lsb without match_address_msb is not generated (meaning not stated)',
    'relative targets outside GLOBAL are not asserted (the property does not say whether the target must be an address)',
    'min/max keys of an indirect-register offset are not a listed constraint and are not generated',
]
BUDGET = {'quick': 4000, 'thorough': 400000}
LEVEL_TEXT = ('Exploration focused on boundaries: every generated configuration is probed exactly at and next to each '
              'of its own boundaries, which is where constraint enforcement can silently fail; the oracle is an '
              'independent statement of each constraint. Dense boundary sampling over generated configurations is '
              'the level this technique gives.')
LEVEL_NOTE = 'Trusted: bvf/refmodel.py constraint and packing model, generator exclusions in evidence assumptions.'

KINDS = ['numeric', 'numeric', 'numeric_bytecode', 'numeric_enumeration', 'address', 'address', 'relative_address',
         'relative_address', 'indirect_numeric', 'deferred_numeric', 'indirect_register', 'indexed_nbc']


def boundary_candidates(alt, isa, address, size):
    """[(raw expression value, tag)] around every boundary in force."""
    kind = alt['type']
    out = []

    def width(n, base=0, tag='width'):
        for v in (-(1 << (n - 1)) - 1, -(1 << (n - 1)), (1 << n) - 1, 1 << n):
            out.append((v + base, tag))
    if kind in ('numeric', 'indirect_numeric', 'deferred_numeric'):
        a = alt['argument']
        width(a['size'])
        if a.get('valid_address'):
            lo, hi = isa.zones['GLOBAL']
            out += [(lo - 1, 'zone'), (lo, 'zone'), (hi, 'zone'), (hi + 1, 'zone')]
    elif kind == 'numeric_bytecode':
        bc = alt['bytecode']
        out += [(bc['min'] - 1, 'minmax'), (bc['min'], 'minmax'), (bc['max'], 'minmax'), (bc['max'] + 1, 'minmax')]
        width(bc['size'])
    elif kind == 'numeric_enumeration':
        d = (alt.get('bytecode') or {}).get('value_dict') or alt['argument']['value_dict']
        for k in d:
            out += [(k, 'member'), (k + 1, 'member'), (k - 1, 'member')]
    elif kind == 'address':
        a = alt['argument']
        n = a['size']
        lo, hi = isa.zones[a.get('memory_zone', 'GLOBAL')]
        out += [(lo - 1, 'zone'), (lo, 'zone'), (hi, 'zone'), (hi + 1, 'zone')]
        if a.get('slice_lsb'):
            base = (address >> n) << n
            out += [(base, 'slice'), (base + (1 << n) - 1, 'slice'), (base - 1, 'slice'), (base + (1 << n), 'slice')]
        else:
            width(n)
    elif kind == 'relative_address':
        a = alt['argument']
        adj = (size - 1) if alt.get('offset_from_instruction_end') else 0
        base = address + adj
        if 'min' in a:
            out += [(base + a['min'] - 1, 'minmax'), (base + a['min'], 'minmax')]
        if 'max' in a:
            out += [(base + a['max'], 'minmax'), (base + a['max'] + 1, 'minmax')]
        width(a['size'], base)
    elif kind == 'indirect_register':
        if 'offset' in alt:
            width(alt['offset']['size'])
    elif kind in ('indexed_register', 'indirect_indexed_register'):
        # the index code of a register-indexed operand is a constrained value too
        bc = alt['index_operands']['idx_nbc']['bytecode']
        out += [(bc['min'] - 1, 'index-minmax'), (bc['min'], 'index-minmax'), (bc['max'], 'index-minmax'),
                (bc['max'] + 1, 'index-minmax')]
        width(bc['size'], tag='index-width')
    return out


@st.composite
def _cases(draw, tier):
    asz = draw(st.sampled_from([8, 12, 16, 16, 20, 24, 32, 56, 64]))
    top = (1 << asz) - 1
    general = {'address_size': asz, 'endian': draw(isagen.endians), 'registers': ['hl', 'a']}
    cfg = {'general': general}
    zones = {}
    pre = {}
    if draw(st.integers(0, 1)) == 0:
        s = draw(st.integers(0, top))
        e = draw(st.integers(s, top))
        zones['ROM'] = (s, e)
        pre['memory_zones'] = [{'name': 'ROM', 'start': s, 'end': e}]
    if draw(st.integers(0, 3)) == 0:
        s = draw(st.integers(0, top // 2))
        e = draw(st.integers(max(s, top // 2), top))
        zl = pre.setdefault('memory_zones', [])
        zl.insert(draw(st.integers(0, len(zl))), {'name': 'GLOBAL', 'start': s, 'end': e})      # listed before or after the others
        general['origin'] = s
    if pre:
        cfg['predefined'] = pre
    env = {'address_size': asz, 'zone_names': sorted(zones), 'zones': zones, 'keys': list(isagen.ENUM_KEYS)}
    kind = draw(st.sampled_from(KINDS))
    wide = asz >= 56 and draw(st.booleans())
    if wide:
        kind = 'address'
    if kind == 'indexed_nbc':
        kind = draw(st.sampled_from(['indexed_register', 'indirect_indexed_register']))
        isz = draw(isagen.bits(1, 6))
        lo = draw(st.integers(-(1 << (isz - 1)) - 2, (1 << isz) - 1))
        hi = draw(st.integers(max(lo, 0), (1 << isz) + 8))
        alt = {'type': kind, 'register': 'hl', 'bytecode': draw(isagen._bytecode(force=True, max_size=8)),
               'index_operands': {'idx_nbc': {'type': 'numeric_bytecode', 'bytecode': {'size': isz, 'min': lo, 'max': hi}}}}
        if draw(st.booleans()):
            alt['index_operands']['idx_a'] = {'type': 'register', 'register': 'a',
                                              'bytecode': {'value': draw(isagen.unsigned_value(isz)), 'size': isz}}
    else:
        alt = draw(isagen.alternative(kind, ['hl', 'a'], env))
    if wide and draw(st.integers(0, 3)) != 0:
        # a page number of more than 53 bits: pages are compared exactly
        alt['argument'].update({'size': draw(st.integers(2, asz - 54)), 'slice_lsb': True, 'match_address_msb': True})
    if kind == 'address' and 'ROM' in zones and draw(st.integers(0, 3)) != 0:
        alt['argument']['memory_zone'] = 'ROM'
    if kind == 'indirect_register':
        alt.pop('decorator', None)
        if 'offset' not in alt:
            alt['offset'] = draw(isagen._argument(1, 40))
    cfg['operand_sets'] = {'ops': {'operand_values': {'the_op': alt}}}
    cfg['instructions'] = {'tst': {'bytecode': {'value': 0xA5, 'size': 8},
                                   'operands': {'count': 1, 'operand_sets': {'list': ['ops']}}}}
    isa = R.Isa(cfg)
    glo, ghi = isa.zones['GLOBAL']
    zone_decl = None
    if kind == 'address' and alt['argument'].get('memory_zone') == 'ROM' and glo <= zones['ROM'][0] and zones['ROM'][1] <= ghi:
        # the zone the operand is confined to may also be declared by the program, before or after the statement
        how = draw(st.sampled_from(['config', 'before', 'after']))
        if how != 'config':
            zone_decl = [how, zones['ROM'][0], zones['ROM'][1]]
            pre['memory_zones'] = [z for z in pre['memory_zones'] if z['name'] != 'ROM']
            if not pre['memory_zones']:
                del pre['memory_zones']
            if not pre:
                cfg.pop('predefined', None)
    if kind in ('indexed_register', 'indirect_indexed_register'):
        k = 'idxreg' if kind == 'indexed_register' else 'indidx'
        op0 = {'k': k, 'r': 'hl', 'idx': {'k': 'expr', 'e': ['num', 0, 'dec']}, 'deco': None}
        size = R.instruction_size(isa, 'tst', [op0])
        if ghi - glo + 1 < size + 2:
            return {'skip': 'address space too small', 'isa': cfg}
        address = draw(st.integers(glo, ghi - size))
        cands = boundary_candidates(alt, isa, address, size)
        v, tag = draw(st.sampled_from(cands)) if draw(st.integers(0, 9)) < 8 else (draw(st.integers(-70, 140)), 'interior')
        consts = {'kval': draw(st.integers(0, 5000)), 'ixv': v}
        # the index position holds one token: a literal or a named constant
        e = ['lab', 'ixv'] if v < 0 or draw(st.booleans()) else ['num', v, draw(st.sampled_from(['dec', 'hex$', 'bin%']))]
        op = {'k': k, 'r': 'hl', 'idx': {'k': 'expr', 'e': e}, 'deco': None}
        return {'isa': cfg, 'address': address, 'op': op, 'value': v, 'tag': tag, 'consts': consts, 'size': size,
                'zone_decl': None, 'fill': draw(st.sampled_from([0, 0xEE]))}
    dummy = {'k': {'numeric': 'expr', 'numeric_bytecode': 'expr', 'numeric_enumeration': 'expr', 'address': 'expr',
                   'relative_address': 'braced' if alt.get('use_curly_braces') else 'expr',
                   'indirect_numeric': 'indnum', 'deferred_numeric': 'defnum', 'indirect_register': 'indreg'}[kind],
             'e': ['num', 0, 'dec'], 'r': alt.get('register', 'hl'), 'off': ['num', 0, 'dec'], 'sign': '+', 'deco': None}
    size = R.instruction_size(isa, 'tst', [dummy])
    if ghi - glo + 1 < size + 2:
        return {'skip': 'address space too small', 'isa': cfg}
    address = draw(st.one_of(st.integers(glo, ghi - size), st.sampled_from([glo, ghi - size, (glo + ghi) // 2])))
    if kind == 'address' and alt['argument'].get('slice_lsb') and alt['argument'].get('memory_zone') in isa.zones and draw(st.booleans()):
        # the instruction sits in the page that holds an edge of the operand's zone: a value just outside the zone can
        # still share its high-order bits with the instruction's address
        zlo, zhi = isa.zones[alt['argument']['memory_zone']]
        address = min(max(glo, draw(st.sampled_from([zlo, zhi])) + draw(st.integers(-6, 6))), ghi - size)
    cands = boundary_candidates(alt, isa, address, size)
    mode = draw(st.integers(0, 9))
    if cands and mode < 8:
        v, tag = draw(st.sampled_from(cands))
    else:
        v, tag = draw(st.integers(-(1 << 20), 1 << 33)), 'interior'
    simple = kind in ('indirect_numeric', 'deferred_numeric', 'indirect_register')
    consts = {'kval': draw(st.integers(0, 5000))}
    if kind == 'indirect_register':
        op = {'k': 'indreg', 'r': alt['register'], 'deco': None, 'sign': '-' if v < 0 else '+',
              'off': isagen.value_ast(draw, abs(v), consts, simple=True)}
        if op['off'][0] not in ('num', 'lab'):
            op['off'] = ['par', op['off']]
    else:
        op = dict(dummy)
        for k in ('r', 'off', 'sign', 'deco'):
            op.pop(k)
        op['e'] = isagen.value_ast(draw, v, consts, simple=simple, allow_chr=True)
    return {'isa': cfg, 'address': address, 'op': op, 'value': v, 'tag': tag, 'consts': consts, 'size': size,
            'zone_decl': zone_decl, 'fill': draw(st.sampled_from([0, 0xEE]))}


def strategy(tier):
    return _cases(tier)


def near_boundary(case, isa):
    alt = case['isa']['operand_sets']['ops']['operand_values']['the_op']
    v = case['value']
    return any(abs(v - c) <= 1 for c, _ in boundary_candidates(alt, isa, case['address'], case['size']))


def execute(case, ctx):
    if 'skip' in case:
        return Outcome(classes=['skipped:' + case['skip']], evals=0, excluded=[case['skip']])
    cfg = isagen.fix_int_keys(case['isa'])
    isa = R.Isa(cfg)
    alt = cfg['operand_sets']['ops']['operand_values']['the_op']
    fname, text = isagen.dump_isa(cfg, 'yaml')
    consts = case['consts']
    src = ''.join(f'{k} = {v}\n' for k, v in consts.items())
    zd = case.get('zone_decl')
    if zd:
        isa.zones['ROM'] = (zd[1], zd[2])
        # the bounds in one of the notations, picked by the bounds themselves
        from .. import exprs as _ex
        nots = ['dec', 'hex$', 'hex0x', 'hexH', 'bin%']
        decl = '#create_memzone ROM {} {}\n'.format(_ex.render_num(zd[1], nots[zd[2] % 5]), _ex.render_num(zd[2], nots[(zd[1] + zd[2] // 5) % 5]))
        if zd[0] == 'before':
            src += decl
    src += f'.org {case["address"]}\n' + isagen.render_statement('tst', [case['op']]) + '\n'
    if zd and zd[0] == 'after':
        src += decl

    def resolve(name):
        if name in consts:
            return consts[name]
        raise R.Reject('unresolved')
    try:
        want = R.encode_instruction(isa, 'tst', [case['op']], resolve, case['address'])
        verdict = 'accept'
        why = ''
    except R.Reject as r:
        want, verdict, why = None, 'reject', r.why
    except R.Unspecified as u:
        return Outcome(classes=['unspecified:' + str(u)], evals=0, excluded=['unspecified: ' + str(u)])
    argv = ['compile', '-c', fname, '-o', 'out.bin', '-s', str(case['address']),
            '-e', str(case['address'] + case['size'] - 1), '-f', str(case['fill']), 'p.asm']
    res = runner.run_forked(argv, {fname: text, 'p.asm': src})
    detail = {'source': src, 'operand_alternative': alt, 'general': cfg['general'], 'predefined': cfg.get('predefined'),
              'value': case['value'], 'model': verdict + (': ' + why if why else ''), 'run': res.brief(), 'argv': argv}
    kindtag = f"{alt['type']}/{case['tag']}"
    findings = []
    if res.klass == 'timeout':
        findings.append(Finding('C12/timeout', detail))
    elif verdict == 'reject' and res.klass == 'accepted':
        findings.append(Finding(f'C12/violating-value-accepted/{kindtag}', detail))
    elif verdict == 'accept' and zd and zd[0] == 'after':
        # nothing says whether a zone may be named by an operand before the program declares it
        return Outcome(classes=['unspecified:zone declared after its use'], evals=1, excluded=['zone declared after its use'])
    elif verdict == 'accept' and res.klass != 'accepted':
        findings.append(Finding(f'C12/satisfying-value-rejected/{kindtag}', detail))
    elif verdict == 'accept':
        detail['expected'] = want.hex()
        if res.outputs.get('out.bin') != want:
            findings.append(Finding(f'C12/wrong-encoding/{alt["type"]}', detail))
    nb = near_boundary(case, isa)
    classes = ['kind:' + alt['type'], 'tag:' + case['tag'], 'model:' + verdict, 'outcome:' + res.klass,
               'near-boundary' if nb else 'interior'] + (['zone-declared-in-source:' + zd[0]] if zd else [])
    sample = {'statement': isagen.render_statement('tst', [case['op']]), 'value': case['value'], 'at': case['address'],
              'alternative': alt, 'model': verdict + (': ' + why if why else ''), 'tool': res.klass}
    return Outcome(findings, nb, classes, 1, sample=sample)

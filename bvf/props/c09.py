"""C09 - preprocessor symbols are substituted as whole words, in definition order."""
from __future__ import annotations

import json
import re

from hypothesis import strategies as st

from .. import runner
from ..driver import Finding, Outcome

ID = 'C09'
LEVEL = 'exploration'
TECHNIQUE = ('property-based testing (Hypothesis): generated symbol sets with overlapping names (chains, diamonds, '
             'cycles) from all three definition sources x lines using them; the real substitution (API: '
             'Preprocessor.resolve_symbols; system: bytes assembled by the CLI) compared with an independent whole-word '
             'substituter')
RULE = ('1..6 symbols are drawn from a pool of names built to overlap (AB, ABC, XAB, A_B, AB2, by, te ...) with '
        'look-alike identifiers that are not symbols; replacement texts are literals, other symbols (chains, diamonds), '
        'additive expressions, empty, or cycles of length 1..4; definitions come from the ISA configuration, -D and '
        '#define; uses are placed before and after the #define (a same-named constant makes "untouched before" '
        'observable). API layer: random word/separator sequences. System layer: .byte lists through the CLI. '
        'Non-trivial = the line has a defined symbol and an identifier properly containing some symbol name, or chain '
        'depth >= 2, or a cycle, or a duplicate definition, or a use before the definition. Distinct = SHA-1 of the '
        'case JSON.')
ASSUMPTIONS = [
    'symbol names have at least two characters (the #define grammar of the tool requires it)',
    'symbols are not placed next to "." "$" "%" (word-ness there is not specified); inside quoted strings they are space-separated words',
    'expression-valued symbols are only combined with "+" (textual substitution into other contexts is precedence dependent)',
]
BUDGET = {'quick': 20000, 'thorough': 1000000}
LEVEL_TEXT = ('Exploration over name sets: substitution correctness for overlapping names, definition order and cycles is '
              'a property of all name sets; the pool is built so that containment (prefix/suffix/infix) occurs in most '
              'cases, and an independent substituter states only the whole-word rule.')
LEVEL_NOTE = ('Trusted: the substituter in this module (maximal [A-Za-z0-9_]+ runs are the words). API layer imports '
              'bespokeasm.assembler.preprocessor.Preprocessor; system layer uses only the CLI.')

SYMS = ['AB', 'ABC', 'XAB', 'A_B', 'AB2', 'by', 'te', 'BA', 'ABAB']
# legal symbol names that, were they not symbols, would lex as numbers (trailing-H hexadecimal, b-binary)
NUMLIKE = ['ACH', 'b1', 'DEH', '0FH']
LOOKALIKE = ['ABCD', 'XABC', 'AB_', '_AB', 'A', 'B', 'AB2X', 'bytes', 'tent', 'ABA', 'BAB', 'XA_B', 'bye', 'ABBA', 'AAB',
             'ab', 'Abc', 'BY', 'Te', 'xab']        # the last five are symbol names in another letter case: other words
SEPS = [' ', ', ', ' + ', '(', ')', ' - ', '+', ',', ' * ']
WORD = re.compile(r'[A-Za-z0-9_]+')


class Cycle(Exception):
    pass


def expand(text, syms, stack=()):
    def rep(m):
        w = m.group(0)
        if w in syms:
            if w in stack:
                raise Cycle(w)
            return expand(syms[w], syms, stack + (w,))
        return w
    return WORD.sub(rep, text)


def chain_depth(text, syms, stack=()):
    d = 0
    for w in WORD.findall(text):
        if w in syms and w not in stack:
            d = max(d, 1 + chain_depth(syms[w], syms, stack + (w,)))
    return d


RAW_TEXTS = [r'"p\nq"', r'"a\\b"', r"'\t'", r'"\x41"', r'"\g<0>"', r'"\1z"', r'"c:\\new"']


@st.composite
def _symtab(draw, allow_cycle=True, raw_texts=False):
    names = draw(st.lists(st.sampled_from(SYMS), min_size=1, max_size=6, unique=True))
    if draw(st.integers(0, 3)) == 0:
        names.insert(draw(st.integers(0, len(names) - 1)), draw(st.sampled_from(NUMLIKE[:3])))
    syms = {}
    for i, n in enumerate(names):
        k = draw(st.integers(0, 10))
        if raw_texts and k in (2, 3) and draw(st.booleans()):
            # replacement text with backslashes in it (a quoted string with escapes): it is inserted as it stands
            v = draw(st.sampled_from(RAW_TEXTS))
        elif k == 10:
            # the replacement is an identifier that merely contains symbol names (a constant of the program)
            v = draw(st.sampled_from([w for w in LOOKALIKE if len(w) > 1]))
        elif k < 4 or i == 0:
            v = str(draw(st.integers(0, 99)))
        elif k < 7:
            v = draw(st.sampled_from(names[:i]))
        elif k < 9:
            v = draw(st.sampled_from(names[:i])) + ' + ' + str(draw(st.integers(0, 9)))
            if draw(st.booleans()):
                # the same sum with the number first: the replacement text does not begin with a word
                v = ' + '.join(reversed(v.split(' + ')))
        else:
            v = str(draw(st.integers(0, 50))) + ' + ' + str(draw(st.integers(0, 50)))
        syms[n] = v
    cyc = None
    if allow_cycle and draw(st.integers(0, 5)) == 0:
        ln = draw(st.integers(1, min(4, len(names))))
        cyc = names[:ln]
        for a, b in zip(cyc, cyc[1:] + cyc[:1]):
            syms[a] = b if draw(st.booleans()) else b + ' + 1'
    return names, syms, cyc


@st.composite
def _cases(draw, tier):
    layer = draw(st.sampled_from(['api'] * 6 + ['cli']))
    names, syms, cyc = draw(_symtab(raw_texts=(layer == 'api')))
    if layer == 'api':
        toks = []
        for _ in range(draw(st.integers(1, 8))):
            toks.append(draw(st.sampled_from(names + names + LOOKALIKE + ['7', '0xAB', '12', 'AB12'])))
            toks.append(draw(st.sampled_from(SEPS)))
        return {'layer': 'api', 'syms': syms, 'order': names, 'line': ''.join(toks[:-1]), 'cycle': cyc}
    # system layer
    srcs = {n: draw(st.sampled_from(['config', 'cli', 'define', 'define', 'incdefine'])) for n in names}
    for n in names:
        if n in NUMLIKE:
            srcs[n] = draw(st.sampled_from(['config', 'cli']))     # defined from the start: never read as a number
    padded = False
    for n in names:
        if srcs[n] == 'config' and not cyc and draw(st.integers(0, 3)) == 0:
            # a replacement text configured with blanks around it is inserted as configured (seen inside strings)
            syms[n] = draw(st.sampled_from([' ', '  '])) + syms[n] + draw(st.sampled_from([' ', '   ', '']))
            padded = True
    dup = None
    if draw(st.integers(0, 7)) == 0:
        dup = (draw(st.sampled_from(names)), draw(st.sampled_from(['config', 'cli', 'define'])))
        if srcs[dup[0]] == 'incdefine' and dup[1] == 'define':
            dup = None
    looks = draw(st.lists(st.sampled_from([w for w in LOOKALIKE if len(w) > 1]), min_size=1, max_size=4, unique=True))
    looks += [v for v in syms.values() if v in LOOKALIKE and v not in looks]
    shadow = [n for n in names if srcs[n] == 'define' and draw(st.integers(0, 2)) == 0]
    lines = []
    for n in names:
        if srcs[n] == 'define':
            if draw(st.booleans()):
                # (symbols defined from the start may be used here too: they expand to names that are still plain words)
                early = shadow + [m for m in names if srcs[m] in ('config', 'cli')]
                lines.append(('use', draw(_use(names, looks, shadow_only=early))))
            lines.append(('define', n))
        if draw(st.booleans()):
            lines.append(('use', draw(_use(names, looks, shadow_only=None))))
    lines.append(('use', draw(_use(names, looks, shadow_only=None))))
    if padded or draw(st.integers(0, 3)) == 0:
        # whole words inside a quoted string are occurrences like any other (the statement makes no exception)
        lines.insert(draw(st.integers(0, len(lines))), (draw(st.sampled_from(['usestr', 'usebare'])), draw(st.lists(st.sampled_from(names + looks + ['hi', 'x']), min_size=1, max_size=4))))
    empty = None
    if draw(st.integers(0, 3)) == 0 and not cyc:
        empty = {'name': 'EMPTYSYM', 'src': draw(st.sampled_from(['config', 'cli', 'define']))}
    if empty:
        empty['style'] = draw(st.integers(0, 3))
    defsep = draw(st.sampled_from([' ', ' ', ' ', '  ', '\t', ' \t ', '    ']))     # blanks between the name and its replacement text
    return {'layer': 'cli', 'defsep': defsep, 'incpad': draw(st.sampled_from([0, 0, 3, 9, 30])), 'empty': empty, 'syms': syms, 'order': names, 'srcs': srcs, 'dup': dup, 'looks': looks, 'shadow': shadow,
            'lines': lines, 'cycle': cyc}


@st.composite
def _use(draw, names, looks, shadow_only):
    pool = (names if shadow_only is None else shadow_only) + looks
    if not pool:
        pool = looks
    elems = []
    for _ in range(draw(st.integers(1, 4))):
        w = draw(st.sampled_from(pool))
        if draw(st.integers(0, 3)) == 0:
            w = w + ' + ' + str(draw(st.integers(0, 9)))
        elems.append(w)
    return elems


def strategy(tier):
    return _cases(tier)


_API = None


def _api():
    global _API
    if _API is None:
        runner._import_target()
        from bespokeasm.assembler.preprocessor import Preprocessor
        from bespokeasm.assembler.line_identifier import LineIdentifier
        _API = (Preprocessor, LineIdentifier(1, 'c09'))
    return _API


def _eval_additive(text, consts):
    total = 0
    for part in text.split('+'):
        p = part.strip()
        if p in consts:
            total += consts[p]
        else:
            total += int(p, 0)
    return total


ISA_BASE = {
    'general': {'address_size': 16, 'endian': 'big', 'registers': ['a'], 'allow_embedded_strings': True},
    'operand_sets': {},
    'instructions': {'nop': {'bytecode': {'value': 0xEA, 'size': 8}}},
}


def execute(case, ctx):
    syms = case['syms']
    if case['layer'] == 'api':
        Preprocessor, lid = _api()
        line = case['line']
        words = WORD.findall(line)
        try:
            want = ('text', expand(line, syms))
        except Cycle:
            want = ('rejected', None)
        pp = Preprocessor()
        for n in case['order']:
            pp.create_symbol(n, syms[n])
        try:
            with runner.time_limit(3):
                got = ('text', pp.resolve_symbols(lid, line))
        except runner.InProcessTimeout:
            return Outcome([Finding('C09/timeout', {'line': line, 'symbols': syms})], True, ['layer:api', 'timeout'], 1)
        except (Exception, SystemExit) as e:
            got = ('rejected', type(e).__name__)
        detail = {'line': line, 'symbols': syms, 'expected': want, 'got': got}
        findings = []
        contains = any(any(s in w and s != w for s in syms) for w in words)
        has_sym = any(w in syms for w in words)
        if want[0] == 'rejected' and got[0] != 'rejected':
            findings.append(Finding('C09/cycle-not-rejected', detail))
        elif want[0] == 'text' and got[0] == 'rejected':
            findings.append(Finding('C09/valid-line-rejected', detail))
        elif want[0] == 'text' and got[1] != want[1]:
            findings.append(Finding('C09/wrong-substitution' + ('/identifier-containing-symbol-name' if contains else ''), detail))
        depth = chain_depth(line, syms)
        nt = (has_sym and contains) or depth >= 2 or (want[0] == 'rejected')
        classes = ['layer:api', 'depth:%d' % min(depth, 4)] + (['contains-symbol-name'] if contains else []) + \
                  (['cycle-used'] if want[0] == 'rejected' else [])
        return Outcome(findings, nt, classes, 1, sample={'line': line, 'symbols': syms, 'expected': want})
    # ---- system layer
    cfg = json.loads(json.dumps(ISA_BASE))
    srcs = case['srcs']
    conf = [{'name': n, 'value': syms[n]} for n in case['order'] if srcs[n] == 'config']
    cli = [n for n in case['order'] if srcs[n] == 'cli']
    dup = case['dup']
    argv_syms = []
    for n in cli:
        argv_syms += ['-D', f'{n}={syms[n]}']
    expect_reject = False
    if dup:
        n, where = dup
        if where == 'config':
            conf.append({'name': n, 'value': '1'})
            expect_reject = True
        elif where == 'cli':
            argv_syms += ['-D', f'{n}=1']
            expect_reject = True
    empty = case.get('empty')
    if empty and empty['src'] == 'config':
        conf.append({'name': empty['name']})
    if empty and empty['src'] == 'cli':
        argv_syms += ['-D', empty['name']]
    if conf:
        cfg['predefined'] = {'symbols': conf}
    consts = {w: 100 + i for i, w in enumerate(case['looks'])}
    for i, n in enumerate(case['shadow']):
        consts[n] = 200 + i
    src = [f'{k} = {v}' for k, v in consts.items()]
    defined = {n: syms[n] for n in case['order'] if srcs[n] in ('config', 'cli')}
    # constants named like a symbol that is already defined from the start would themselves be rewritten
    if any(k in defined for k in consts):
        return Outcome(classes=['skipped:shadow-constant-of-predefined-symbol'], evals=0)
    want = bytearray()
    use_before = False
    cyc_used = False
    extra_files = {}
    inc = [n for n in case['order'] if srcs[n] == 'incdefine']
    if inc:
        # some definitions live in a file included first: they are "earlier" whatever their line numbers over there
        extra_files['defs.asm'] = '; definitions\n' * case.get('incpad', 0) + ''.join(f'#define {n} {syms[n]}\n' for n in inc)
        src.append('#include "defs.asm"')
        for n in inc:
            if n in defined:
                expect_reject = True
            defined[n] = syms[n]
    for kind, arg in case['lines']:
        if kind == 'define':
            src.append(f'#define {arg}' + case.get('defsep', ' ') + syms[arg] + case.get('deftrail', ''))
            if dup and dup == [arg, 'define'] or dup == (arg, 'define'):
                src.append(f'#define {arg} 1')
                expect_reject = True
            if arg in defined:
                expect_reject = True
            defined[arg] = syms[arg]
        elif kind in ('usestr', 'usebare'):
            text = ' '.join(arg)
            src.append(('.cstr "' if kind == 'usestr' else '"') + text + '"')     # the bare form is an embedded string
            try:
                want += expand(text, defined).encode() + b'\0'
            except Cycle:
                expect_reject = True
                cyc_used = True
        else:
            text = '.byte ' + ', '.join(arg)
            src.append(text)
            try:
                for el in arg:
                    ex = expand(el, defined)
                    try:
                        want.append(_eval_additive(ex, consts) & 0xFF)
                    except (ValueError, KeyError):
                        expect_reject = True     # a name that is neither symbol nor constant at this point
                    if any(w in case['shadow'] and w not in defined for w in WORD.findall(el)):
                        use_before = True
            except Cycle:
                expect_reject = True
                cyc_used = True
    if empty and not expect_reject:
        if empty['src'] == 'define':
            src.append('#define ' + empty['name'])
        # a symbol without replacement text simply disappears from the line
        style = empty.get('style', 0)
        if style == 1:
            # nothing else on the line changes: the blanks inside a quoted string stay as they are
            src.append(empty['name'] + ' .cstr "p  q   r"')
            want += b'p  q   r\0'
        elif style == 2:
            src.append('.cstr "two  blanks" ' + empty['name'])
            want += b'two  blanks\0'
        else:
            src.append('.byte 7, 8 ' + empty['name'])
            want += bytes([7, 8])
    files = {'isa.json': json.dumps(cfg), 'main.asm': '\n'.join(src) + '\n'}
    files.update(extra_files)
    argv = ['compile', '-c', 'isa.json', '-o', 'out.bin'] + argv_syms + ['main.asm']
    res = runner.run_forked(argv, files)
    detail = {'source': files['main.asm'], 'included': extra_files, 'config_symbols': conf, 'argv': argv, 'expected': 'rejected' if expect_reject else bytes(want).hex(),
              'run': res.brief()}
    findings = []
    if res.klass == 'timeout':
        findings.append(Finding('C09/timeout', detail))
    elif expect_reject and res.klass == 'accepted':
        findings.append(Finding('C09/' + ('cycle-not-rejected' if cyc_used else 'duplicate-or-undefined-accepted'), detail))
    elif not expect_reject and res.klass != 'accepted':
        findings.append(Finding('C09/valid-program-rejected', detail))
    elif not expect_reject and res.outputs.get('out.bin') != bytes(want):
        findings.append(Finding('C09/wrong-substitution/system', detail))
    nt = True
    classes = ['layer:cli', 'outcome:' + res.klass] + (['use-before-define'] if use_before else []) + \
              (['duplicate'] if dup else []) + (['cycle-used'] if cyc_used else []) + ['src:' + s for s in sorted(set(srcs.values()))] + \
              (['empty-symbol-from-' + empty['src']] if empty else [])
    return Outcome(findings, nt, classes, 1, sample={'source': files['main.asm'], 'argv': argv, 'expected': detail['expected']})

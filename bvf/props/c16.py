"""C16 - all output formats describe the same memory contents as the binary image."""
from __future__ import annotations

import collections

from hypothesis import strategies as st

from .. import decoders as D, isagen, proggen as G, refmodel as R, runner
from ..driver import Finding, Outcome
from .c02 import run_layout_case

ID = 'C16'
LEVEL = 'exploration'
TECHNIQUE = ('differential property-based testing (Hypothesis): each generated program is rendered by the real CLI in all '
             'four pretty-print formats and as binary image (twice, fills 0x00 and 0xFF, so emitted bytes and gaps are '
             'distinguishable); independent decoders turn every format into an address->byte map that must equal the '
             'map read from the image; the listing rows (statement bytes and the address column of every placed line) are additionally compared with the '
             'reference per-line layout')
RULE = ('Programs with gaps (origins, alignments, zone switches, predefined blocks), lines longer than the 6 bytes of a '
        'listing row, included files, muted regions and zero-length lines, over address widths 8..32. Non-trivial = the '
        'program is accepted and has at least one of: a gap, a line longer than 6 bytes, a muted region, an include. '
        'Distinct = SHA-1 of the case JSON.')
ASSUMPTIONS = ['the hex dump and minhex formats are decoded as the IntelHex dump grid / address-line + ":"-rows they print',
               'minhex bytes before the first address line are taken to start at the default origin']
BUDGET = {'quick': 1500, 'thorough': 60000}
LEVEL_TEXT = ('Differential exploration: agreement between formats is unchecked by the unit tests for every program; '
              'decoding each format back to a memory map and comparing with the image needs no model of the assembler.')
LEVEL_NOTE = ('Trusted: bvf/decoders.py; the image written by the tool is the reference map; refmodel layout only for '
              'the per-statement listing comparison.')


@st.composite
def _cases(draw, tier):
    cfg = draw(G.layout_isa(zones=True, blocks=True))
    b, feats = G.general_program(draw, cfg, max_steps=22, extra=['include', 'include', 'probe', 'probe', 'mute', 'local', 'local', 'lprobe', 'lprobe', 'lprobe', 'zonecursor'])
    lines = [ln for ln in b.lay.lines if ln['has_bytes'] and ln['size'] >= 1 and ln['zone'] == 'GLOBAL' and not ln['muted']]
    if lines and not b.dead and b.lay.mute == 0 and not b.lay.conds and draw(st.integers(0, 3)) == 0:
        # the program ends with an origin back into memory that is already filled, where no bytes are placed: a line
        # without bytes at the very address of an earlier statement, or a label in the middle of one
        ln = draw(st.sampled_from(lines))
        if ln['size'] >= 2 and draw(st.booleans()):
            b.add({'t': 'org', 'e': b.lit(ln['addr'] + draw(st.integers(1, ln['size'] - 1)))})
            b.add({'t': 'label', 'name': 'tail_mid'})
            feats.add('ends-with-a-label-inside-an-earlier-line')
        else:
            b.add({'t': 'org', 'e': b.lit(ln['addr'])})
            b.add(draw(st.sampled_from([{'t': 'fill', 'n': ['num', 0, 'dec'], 'v': ['num', 7, 'dec']}, {'t': 'zero', 'n': ['num', 0, 'dec']}])))
            feats.add('ends-with-a-byte-less-line-at-the-address-of-an-earlier-statement')
    return {'isa': cfg, 'items': b.items, 'lo': b.lo, 'feats': sorted(feats), 'wpick': draw(st.integers(0, 10 ** 6))}


def strategy(tier):
    return _cases(tier)


def execute(case, ctx):
    try:
        cfg, isa, fname, files, verdict, lay = run_layout_case(ID, case)
        if verdict != 'accepted' or not lay.memory:
            return Outcome(classes=['program-rejected-or-empty'], evals=0)
        lo, hi = min(min(lay.memory), case['lo']), max(lay.memory)
        lay.image(lo, hi, 0)
    except R.Unspecified as u:
        return Outcome(classes=['unspecified:' + str(u).split(':')[0]], evals=0, excluded=['unspecified: ' + str(u).split(':')[0]])
    base = ['compile', '-c', fname, '-s', str(lo), '-e', str(hi)]
    r0 = runner.run_forked(base + ['-o', 'a.bin', '-f', '0', 'main.asm'], files)
    r1 = runner.run_forked(base + ['-o', 'b.bin', '-f', '255', 'main.asm'], files)
    feats = set(case['feats'])
    srcs = {k: v for k, v in files.items() if k.endswith('.asm')}
    detail = {'sources': srcs, 'general': cfg['general'], 'predefined': cfg.get('predefined'), 'features': sorted(feats)}
    if r0.klass != 'accepted' or r1.klass != 'accepted':
        detail['run'] = r0.brief()
        return Outcome([Finding('C16/valid-program-rejected', detail)], False, ['outcome:rejected'], 2)
    a, b = r0.outputs['a.bin'], r1.outputs['b.bin']
    ref = {lo + i: a[i] for i in range(len(a)) if a[i] == b[i]}
    findings = []
    evals = 2
    for fmt in ('intel_hex', 'hex', 'minhex', 'listing'):
        r = runner.run_forked(['compile', '-c', fname, '-n', '-p', '-t', fmt, '--pretty-print-output', 'pp.txt', 'main.asm'], files)
        evals += 1
        d = dict(detail)
        d['format'] = fmt
        if r.klass != 'accepted' or 'pp.txt' not in r.outputs:
            d['run'] = r.brief()
            findings.append(Finding(f'C16/{fmt}/rendering-failed', d))
            continue
        text = r.outputs['pp.txt'].decode(errors='replace')
        d['output'] = text[:3000]
        try:
            if fmt == 'intel_hex':
                got = D.intel_hex(text)
            elif fmt == 'hex':
                got = D.hex_dump(text)
            elif fmt == 'minhex':
                got = D.minhex(text, isa.origin)
            else:
                got, rows = D.listing(text)
        except D.DecodeError as e:
            d['decode_error'] = str(e)
            sig = f'C16/{fmt}/not-decodable'
            if 'twice' in str(e) and 'muted' in feats:
                sig = f'C16/{fmt}/muted-line-described'
            findings.append(Finding(sig, d))
            continue
        if got != ref:
            extra = sorted(set(got) - set(ref))
            missing = sorted(set(ref) - set(got))
            wrong = sorted(k for k in set(got) & set(ref) if got[k] != ref[k])
            d['diff'] = {'extra_addresses': extra[:20], 'missing_addresses': missing[:20], 'wrong_values': wrong[:20]}
            muted_addrs = {ln['addr'] + i for ln in lay.lines if ln['muted'] and ln['has_bytes'] for i in range(ln['size'])}
            if extra and set(extra) <= muted_addrs and not missing and not wrong:
                sig = f'C16/{fmt}/muted-line-described'
            elif fmt == 'minhex' and (missing or extra):
                sig = 'C16/minhex/gap-without-address-line'
            else:
                sig = f'C16/{fmt}/memory-map-differs-from-image'
            findings.append(Finding(sig, d))
            continue
        if fmt == 'listing':
            want = collections.Counter((ln['addr'], bytes(ln['bytes'])) for ln in lay.lines
                                       if ln['has_bytes'] and ln['size'] > 0 and not ln['muted'])
            want.update((blk['addr'], bytes(blk['bytes'])) for blk in lay.blocks if blk['size'] > 0)
            have = collections.Counter((a_, bts) for _, _, a_, bts in rows if bts)
            if want != have:
                d['statements_missing'] = [(x[0], x[1].hex()) for x in (want - have)][:10]
                d['statements_extra'] = [(x[0], x[1].hex()) for x in (have - want)][:10]
                findings.append(Finding('C16/listing/statement-rows-differ-from-layout', d))
            else:
                # address column: every line the reference layout placed appears exactly once, at that address
                where = {}

                def number(its, fname):
                    for n, it in enumerate(its, 1):
                        where[id(it)] = (fname, n)
                        if it['t'] == 'include':
                            number(it['items'], it['file'])
                number(case['items'], 'main.asm')
                got_rows = collections.Counter()
                addr_of = {}
                for f_, n_, a_, _b in rows:
                    key = (f_.split('/')[-1], n_)
                    got_rows[key] += 1
                    addr_of.setdefault(key, []).append(a_)
                bad = []
                for ln in lay.lines:
                    key = where.get(id(ln['item']))
                    if key is None:
                        continue
                    if got_rows.get(key, 0) != 1:
                        bad.append((key, 'rows=%d' % got_rows.get(key, 0)))
                    elif addr_of[key][0] != ln['addr']:
                        bad.append((key, 'listing address %r, layout address %d' % (addr_of[key][0], ln['addr'])))
                if bad:
                    d['address_column_mismatches'] = bad[:10]
                    findings.append(Finding('C16/listing/address-column-differs-from-layout', d))
    # the formats rendered by the very invocation that writes a windowed image: a window start inside a statement
    windowed = False
    strad = [ln for ln in lay.lines if ln['has_bytes'] and ln['size'] >= 2 and not ln['muted'] and ln['addr'] >= lo]
    wp = case.get('wpick', 0)
    if strad and not findings:
        ln = strad[wp % len(strad)]
        ws = ln['addr'] + 1 + (wp // len(strad)) % (ln['size'] - 1)
        windowed = True
        for fmt in [('intel_hex', 'hex', 'minhex', 'listing')[(wp + j) % 4] for j in range(2)]:
            r = runner.run_forked(['compile', '-c', fname, '-s', str(ws), '-e', str(hi), '-f', '0', '-o', 'w.bin', '-p', '-t', fmt,
                                   '--pretty-print-output', 'pp.txt', 'main.asm'], files)
            evals += 1
            d = dict(detail)
            d['format'] = fmt
            d['window'] = [ws, hi]
            if r.klass != 'accepted' or 'pp.txt' not in r.outputs or 'w.bin' not in r.outputs:
                d['run'] = r.brief()
                findings.append(Finding(f'C16/{fmt}/rendering-failed/with-image-window', d))
                continue
            text = r.outputs['pp.txt'].decode(errors='replace')
            d['output'] = text[:3000]
            try:
                got = {'intel_hex': D.intel_hex, 'hex': D.hex_dump, 'minhex': lambda t: D.minhex(t, isa.origin),
                       'listing': lambda t: D.listing(t)[0]}[fmt](text)
            except D.DecodeError as e:
                d['decode_error'] = str(e)
                findings.append(Finding(f'C16/{fmt}/not-decodable/with-image-window', d))
                continue
            w = r.outputs['w.bin']
            if w != a[ws - lo:]:
                d['image'] = w.hex()[:400]
                findings.append(Finding('C16/windowed-image-differs-from-full-image', d))
            elif {k: v for k, v in got.items() if ws <= k <= hi} != {k: v for k, v in ref.items() if ws <= k <= hi}:
                findings.append(Finding(f'C16/{fmt}/memory-map-differs-from-image/with-image-window', d))
    gaps = any(k not in ref for k in range(min(ref), max(ref) + 1)) if ref else False
    long_line = any(ln['size'] > 6 for ln in lay.lines)
    nt = gaps or long_line or 'muted' in feats or 'include' in feats
    classes = ['outcome:accepted'] + (['gap'] if gaps else []) + (['line>6-bytes'] if long_line else []) + \
              ['feat:' + f for f in sorted(feats & {'muted', 'include', 'zone', 'origin', 'fill'})] + \
              (['window-start-inside-a-statement'] if windowed else [])
    return Outcome(findings, nt, classes, evals, sample={'sources': srcs, 'general': cfg['general'], 'features': sorted(feats)})

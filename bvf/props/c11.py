"""C11 - data and fill directives emit exactly the bytes they describe."""
from __future__ import annotations

from hypothesis import strategies as st

from .. import exprs, isagen, proggen as G, refmodel as R, runner
from ..driver import Finding, Outcome
from .c02 import run_layout_case

ID = 'C11'
LEVEL = 'exploration'
TECHNIQUE = ('property-based testing (Hypothesis): generated data / string / fill directive lines (negative and '
             'oversized values, expressions, forward and backward labels, escapes, both quote styles, terminators, '
             'both byte orders, counts and targets around the cursor) assembled by the real CLI and compared byte for '
             'byte with an independent emitter; plus exhaustive enumeration of short quoted strings (quotes, semicolons, commas, escapes) under .cstr/.asciiz/.byte with every short comment text')
RULE = ('1..8 directive lines are drawn from {.byte,.2byte,.4byte,.8byte lists of 1..8 expressions; quoted strings '
        'with escapes \\n \\t \\r \\0 \\\\ \\" \\\' \\xHH in either quote style under .byte/.cstr/.asciiz or bare when '
        'embedded strings are enabled; .fill n,v (n 0..300); .zero n; .zerountil a with a before/at/after the '
        'cursor}, separated by labels the values may refer to in both directions. Non-trivial = some value lies '
        'outside [0, 2^(8w)), or a multi-byte width is used under little endian, or a string has an escape or the '
        'other quote character, or a .zerountil target is at or before the cursor, or a forward label is used. '
        'Distinct = SHA-1 of the case JSON.')
ASSUMPTIONS = [
    'a single-quoted text directly after a numeric directive is a character literal when an operator or comma '
    'follows it (.byte \'a\', \'b\' and .byte \'a\' + 1 are value lists), otherwise a string; the bytes agree for \'a\' alone',
    'string characters are printable ASCII (plus the listed escapes); \\0 is never followed by an octal digit',
    'fill counts are non-negative; first-pass expressions use earlier names only',
    'a configured terminator outside 0..255 stands for its low byte (what the tool does); a clean refusal of such a '
    'configuration would be tolerated, a traceback or another byte is not',
]
BUDGET = {'quick': 4000, 'thorough': 400000}
LEVEL_TEXT = ('Exploration: masking, byte order, escapes, terminators and the inclusive/exclusive edges of the fill '
              'family are checked over generated values, strings and cursor-relative targets with an independent '
              'emitter.')
LEVEL_NOTE = 'Trusted: bvf/refmodel.py Layouter data/string/fill emission.'

PRINT = [c for c in range(32, 127) if chr(c) not in '\\"\'']
ESC = [(10, '\\n'), (9, '\\t'), (13, '\\r'), (0, '\\0'), (92, '\\\\'), (34, '\\"'), (39, "\\'"), (0x41, '\\x41'),
       (0xFF, '\\xff'), (0x80, '\\x80'), (0x0A, '\\x0a'), (0, '\\x00')]


@st.composite
def _string(draw, allow_semicolon):
    n = draw(st.integers(0, 12))
    chars = []
    q = draw(st.sampled_from(['"', '"', "'"]))
    for i in range(n):
        k = draw(st.integers(0, 9))
        if k < 6:
            c = draw(st.sampled_from(PRINT))
            if c == ord(';') and not allow_semicolon:
                c = ord(':')
            chars.append(c)
        elif k < 8:
            code, text = draw(st.sampled_from(ESC))
            chars.append(['esc', code, text])
        else:
            other = "'" if q == '"' else '"'
            chars.append(ord(other))
    if allow_semicolon and chars:
        chars.insert(draw(st.integers(0, len(chars))), ord(';'))
    if allow_semicolon and draw(st.integers(0, 15)) == 0:
        # a string that begins like the character literals '\' or ''' followed by something an expression could go on
        # with, and holds a semicolon further on: it is one string all the same
        q = "'"
        chars = [['esc', 39, "\\'"], ord(draw(st.sampled_from(' ,)+-*/&|^%<>')))] + [c for c in chars if c != 39] + [ord(';')] + \
            [ord(draw(st.sampled_from('x "0')))] * draw(st.integers(0, 2))
    # \0 followed by an octal digit would be read as a longer octal escape
    out = []
    for c in chars:
        if out and not isinstance(out[-1], int) and out[-1][2] == '\\0' and isinstance(c, int) and chr(c) in '01234567':
            c = ord('x')
        out.append(c)
    return out, q


@st.composite
def _cases(draw, tier):
    asz = draw(st.sampled_from([16, 16, 24, 32]))
    general = {'address_size': asz, 'endian': draw(isagen.endians), 'registers': ['a']}
    if draw(st.booleans()):
        general['cstr_terminator'] = draw(st.one_of(st.integers(0, 255), st.sampled_from([0, 1, 255, 128]),
                                                    st.sampled_from([256, 0x141, 0x1FF, 1000, -1, -2, -200])))
    emb = draw(st.booleans())
    if emb:
        general['allow_embedded_strings'] = True
    base = draw(st.sampled_from([0, 0, 0x100, 0x8000]))
    if base:
        general['origin'] = base
    cfg = {'general': general, 'operand_sets': {}, 'instructions': {'nop': {'bytecode': {'value': 0xEA, 'size': 8}}}}
    semi = draw(st.integers(0, 4)) == 0
    n = draw(st.integers(1, 8))
    labels = [f'lbl{i}' for i in range(n + 1)]
    items = []
    cursor = base
    feats = set()
    consts = {}
    use_local = draw(st.booleans())
    for i in range(n):
        items.append({'t': 'label', 'name': labels[i]})
        if use_local and draw(st.booleans()):
            # the same local name and the same expression text in several regions
            items.append({'t': 'data', 'd': '.2byte', 'vals': [['lab', '.loc'], ['bin', '+', ['lab', '.loc'], ['num', 1, 'dec']]]})
            items.append({'t': 'data', 'd': '.byte', 'vals': [['num', i, 'dec']] * draw(st.integers(0, 3)) or [['num', 9, 'dec']]})
            items.append({'t': 'label', 'name': '.loc'})
            feats.add('same-local-label-in-several-regions')
            cursor += 3
        kind = draw(st.sampled_from(['num', 'num', 'num', 'str', 'str', 'fill', 'zero', 'zerountil', 'bare']))
        if kind == 'num':
            d = draw(st.sampled_from(['.byte', '.2byte', '.4byte', '.8byte']))
            w = R.WIDTH[d]
            vals = []
            for j in range(draw(st.integers(1, 8))):
                c = draw(st.integers(0, 9))
                if c < 2:
                    li = draw(st.integers(0, n))
                    e = ['lab', labels[li]]
                    if li > i:
                        feats.add('forward-label')
                    if draw(st.booleans()):
                        e = ['bin', draw(st.sampled_from(['+', '-'])), e, ['num', draw(st.integers(0, 300)), 'dec']]
                elif c < 5:
                    v = draw(st.sampled_from([-1, -128, -129, 255, 256, 1 << (8 * w), (1 << (8 * w)) - 1, -(1 << (8 * w - 1)),
                                              -(1 << (8 * w)) - 1, (1 << (8 * w)) + 0x1234, 1 << 70]))
                    e = isagen._lit(v, draw)
                    if not 0 <= v < (1 << (8 * w)):
                        feats.add('out-of-range-value')
                else:
                    v = draw(st.integers(-(1 << (8 * w)), (1 << (8 * w + 1))))
                    e = isagen.value_ast(draw, v, None)
                    if not 0 <= v < (1 << (8 * w)):
                        feats.add('out-of-range-value')
                vals.append(e)
            if draw(st.integers(0, 11)) == 0 and len(vals) >= 2:
                # two quoted characters side by side, the first of them the apostrophe
                vals[0] = ['num', 39, 'chr']
                vals[1] = ['num', ord(draw(st.sampled_from('s,;\'a'))), 'chr']
            elif draw(st.integers(0, 7)) == 0:
                # a list that begins with a character literal is still a list of expressions
                lit = ['num', ord(draw(st.sampled_from('aZq09 #~;,\\\'"'))), 'chr']
                vals[0] = draw(st.sampled_from([lit, ['bin', '+', lit, ['num', draw(st.integers(0, 9)), 'dec']],
                                                ['bin', '-', lit, ['num', 1, 'dec']]]))
            first = vals[0]
            while first[0] == 'bin':
                first = first[2]
            if first[0] == 'num' and first[2] == 'chr' and first[1] == 92:
                # after '\' any further quote would also allow the reading as one string: nothing decides between the two
                def _nochr(e):
                    if isinstance(e, list):
                        if len(e) == 3 and e[0] == 'num' and e[2] == 'chr' and e is not first:
                            return ['num', e[1], 'dec']
                        return [_nochr(x) for x in e]
                    return e
                vals = [vals[0]] + [_nochr(v) for v in vals[1:]]
                if vals[0] is not first:
                    vals[0] = ['bin', vals[0][1], first, _nochr(vals[0][3])]
            if first[0] == 'num' and first[2] == 'chr':
                feats.add('list-starts-with-character-literal')
            if w > 1 and general['endian'] == 'little':
                feats.add('little-endian-multibyte')
            items.append({'t': 'data', 'd': d, 'vals': vals, 'sep': draw(st.sampled_from([', ', ', ', ',', ' ,', ',  ', ' , ']))})
            cursor += w * len(vals)
        elif kind in ('str', 'bare'):
            chars, q = draw(_string(semi))
            d = draw(st.sampled_from(['.byte', '.cstr', '.asciiz']))
            if kind == 'bare':
                if not emb or not chars:
                    continue
                d, q = 'bare', '"'
            if not chars and d == '.byte':
                continue
            if d != '.byte' and draw(st.integers(0, 4)) == 0:
                # the text itself ends in the terminator character: the terminator is appended all the same
                t = general.get('cstr_terminator', 0) & 0xFF
                after_nul = bool(chars) and not isinstance(chars[-1], int) and chars[-1][2] == '\\0'     # \0 + digit = octal escape
                plain = 32 <= t < 127 and chr(t) not in '"\'\\;' and not (after_nul and chr(t) in '01234567')
                chars = list(chars) + [t if plain else ['esc', t, '\\x%02x' % t]]
                feats.add('text-ends-in-the-terminator')
            if any(not isinstance(c, int) for c in chars):
                feats.add('escape')
            if any(isinstance(c, int) and chr(c) in '"\'' for c in chars):
                feats.add('other-quote-char')
            if any(isinstance(c, int) and c == ord(';') for c in chars):
                feats.add('semicolon-in-string')
            items.append({'t': 'str', 'd': d, 'chars': chars, 'q': q})
            cursor += len(chars) + (0 if d == '.byte' else 1)
        elif kind == 'fill':
            cnt = draw(st.one_of(st.integers(0, 300), st.sampled_from([0, 1, 255, 256])))
            items.append({'t': 'fill', 'n': isagen.value_ast(draw, cnt, None),
                          'v': isagen.value_ast(draw, draw(st.one_of(st.integers(-300, 70000), st.sampled_from([255, 256, -1]))), None)})
            cursor += cnt
        elif kind == 'zero':
            cnt = draw(st.integers(0, 300))
            items.append({'t': 'zero', 'n': isagen.value_ast(draw, cnt, None)})
            cursor += cnt
        else:
            a = cursor + draw(st.sampled_from([-5, -1, 0, 0, 1, 7, 40]))
            if a < 0:
                a = 0
            if a <= cursor:
                feats.add('zerountil-at-or-before-cursor')
            items.append({'t': 'zerountil', 'a': isagen.value_ast(draw, a, None)})
            cursor = max(cursor, a + 1) if a >= cursor else cursor
    items.append({'t': 'label', 'name': labels[n]})
    items.append({'t': 'instr', 'mn': 'nop', 'ops': []})
    return {'isa': cfg, 'items': items, 'lo': base, 'fill': 0xEE, 'feats': sorted(feats)}


def strategy(tier):
    return _cases(tier)


def extra_phase(tier, seed):
    """Exhaustive lattice of short quoted strings (semicolons, commas, quotes, escapes inside) under .cstr/.asciiz/.byte,
    alone and followed by every short comment text: bvf/quotelattice.strings."""
    from .. import quotelattice as Q
    jobs = Q.strings(tier)
    runs, bad = Q.survey(jobs)
    findings = [('C11/wrong-bytes/quoted-string-lattice', {'kind': 'lattice', 'line': j['line'], 'bytes': j['bytes']}, d) for j, d in bad]
    return {'evals': len(jobs), 'cases': len(jobs), 'findings': findings, 'nt': {'lattice:' + j['line'] for j in jobs[:2000]},
            'report': {'quoted_string_lattice': {'lines_enumerated': len(jobs), 'assembler_runs': runs, 'exhaustive': True,
                                                 'elements': 'a ; , blank other-quote \\\\ \\quote \\n', 'max_elements': Q.STRING_BOUNDS[tier if tier in Q.STRING_BOUNDS else 'quick'][0],
                                                 'max_comment_length': Q.STRING_BOUNDS[tier if tier in Q.STRING_BOUNDS else 'quick'][1]}},
            'samples': [{'lattice_line': j['line'], 'expected_bytes': bytes(j['bytes']).hex()} for j in jobs[100:102]]}


def execute(case, ctx):
    if case.get('kind') == 'lattice':
        from .. import quotelattice as Q
        got, r = Q.assemble([case['line']])
        fs = []
        if got != bytes(case['bytes']):
            fs.append(Finding('C11/wrong-bytes/quoted-string-lattice',
                              {'line': case['line'], 'expected': bytes(case['bytes']).hex(),
                               'got': got.hex() if got is not None else r.klass, 'run': r.brief()}))
        return Outcome(fs, True, ['lattice-replay'], 1)
    try:
        cfg, isa, fname, files, verdict, lay = run_layout_case(ID, case)
        if verdict != 'accepted':
            return Outcome(classes=['program-rejected-by-model:' + lay], evals=0)
        lo, hi = case['lo'], max(lay.memory)
        want = lay.image(lo, hi, case['fill'])
    except R.Unspecified as u:
        return Outcome(classes=['unspecified:' + str(u).split(':')[0]], evals=0, excluded=['unspecified: ' + str(u).split(':')[0]])
    argv = ['compile', '-c', fname, '-o', 'out.bin', '-s', str(lo), '-e', str(hi), '-f', str(case['fill']), 'main.asm']
    res = runner.run_forked(argv, files)
    feats = set(case['feats'])
    wide_t = not 0 <= int(cfg['general'].get('cstr_terminator', 0)) <= 255
    if wide_t and any(it['t'] == 'str' and it['d'] != '.byte' for it in case['items']):
        feats.add('terminator-beyond-a-byte')
    if wide_t and res.klass == 'rejected' and 'Traceback' not in res.stderr:
        # a configuration the tool may refuse as a whole; when it accepts it, the terminator is its low byte
        return Outcome(classes=['terminator-beyond-a-byte-refused'], evals=1)
    detail = {'source': files['main.asm'], 'general': cfg['general'], 'argv': argv, 'features': sorted(feats),
              'run': res.brief(), 'expected_image': want.hex() if len(want) < 700 else f'<{len(want)} bytes>'}
    findings = []
    semi = '/semicolon-in-string' if 'semicolon-in-string' in feats else ''
    if res.klass == 'timeout':
        findings.append(Finding('C11/timeout' + semi, detail))
    elif res.klass != 'accepted':
        findings.append(Finding('C11/valid-directive-rejected' + semi, detail))
    elif res.outputs.get('out.bin') != want:
        got = res.outputs.get('out.bin') or b''
        bad_kind = 'unknown'
        for ln in lay.lines:
            if ln['has_bytes'] and ln['size'] and got[ln['addr'] - lo:ln['addr'] - lo + ln['size']] != ln['bytes']:
                bad_kind = ln['item']['t'] + (':' + ln['item']['d'] if 'd' in ln['item'] else '')
                break
        findings.append(Finding('C11/wrong-bytes/' + bad_kind + semi, detail))
    nt = bool(feats - {'semicolon-in-string'})
    classes = ['outcome:' + res.klass] + ['feat:' + f for f in sorted(feats)] + \
              sorted({'line:' + it['t'] + (':' + it['d'] if 'd' in it else '') for it in case['items'] if it['t'] not in ('label', 'instr')})
    return Outcome(findings, nt, classes, 1, sample={'source': files['main.asm'], 'general': cfg['general'], 'expected_len': len(want)})

"""C15 - assembly is deterministic (hash seed, environment, working directory, include directory order)."""
from __future__ import annotations

import copy
import os
import shutil
import subprocess
import tempfile

from hypothesis import strategies as st

from .. import isagen, proggen as G, refmodel as R, runner
from ..driver import Finding, Outcome

ID = 'C15'
LEVEL = 'exploration'
TECHNIQUE = ('differential / metamorphic property-based testing (Hypothesis): each generated program (includes spread over '
             'several -I directories, look-alike mnemonics and registers) is assembled by genuine interpreter processes '
             'under different PYTHONHASHSEED values, permuted and duplicated -I order, another working directory and '
             'perturbed environment; exit status, image and pretty-print output must be byte-identical')
RULE = ('Two program families: multi-file layout programs whose included files live in up to three include directories '
        '(also an ambiguous file name present in two directories, a missing file), and single statements under fully '
        'generated ISA definitions (many registers / prefix-sharing mnemonics / operand alternatives held in sets and '
        'dicts). Each is run under 4 (quick) or 10 (thorough) hash seeds plus three environment variants, in one of the '
        'four pretty-print formats. Non-trivial = at least two include directories or at least three registers / '
        'prefix-sharing mnemonics, and at least two hash seeds compared. Distinct = SHA-1 of the case JSON.')
ASSUMPTIONS = ['all paths on the command line are absolute and identical across the compared runs, so that listings may '
               'print them (one exception: an include directory given by a relative name that begins with a tilde; those '
               'runs all start in the same directory and differ in HOME)']
SHARD_MIN = 4
BUDGET = {'quick': 160, 'thorough': 4000}
LEVEL_TEXT = ('Exploration by re-execution: the only source of run-to-run variation is set/dict iteration order and the '
              'environment, so the same generated input is re-run in fresh interpreters under different hash seeds and '
              'environments and every observable output is compared byte for byte.')
LEVEL_NOTE = 'Trusted: the process runner; comparison is reference-free (differential between runs).'

SEEDS_QUICK = ['0', '1', '2', '3']
SEEDS_THOROUGH = ['0', '1', '2', '3', '4', '5', '6', '7', '12345', '4294967295']


@st.composite
def _cases(draw, tier):
    fmt = draw(st.sampled_from(['listing', 'listing', 'listing', 'hex', 'intel_hex', 'minhex']))
    if draw(st.integers(0, 5)) == 0:
        # vocabulary stress: a dotted mnemonic whose head and tail are mnemonics too, in a drawn configuration order
        head, tail = draw(st.sampled_from([('ld', 'b'), ('op', 'w'), ('mov', 'x2'), ('st', 'st')]))
        names = draw(st.permutations([head + '.' + tail, head, tail, 'nop', 'inc']))
        instrs = {}
        for i, n in enumerate(names):
            instrs.setdefault(n, {'bytecode': {'value': i + 1, 'size': 8},
                                  'operands': {'count': 1, 'operand_sets': {'list': ['imm']}}} if n != 'nop' else
                              {'bytecode': {'value': 0, 'size': 8}})
        cfg = {'general': {'address_size': 16, 'endian': 'big', 'registers': ['a', 'hl', 'x']},
               'operand_sets': {'imm': {'operand_values': {'i': {'type': 'numeric', 'argument': {'size': 8, 'byte_align': True}}}}},
               'instructions': instrs}
        lines = []
        for _ in range(draw(st.integers(1, 4))):
            n = draw(st.sampled_from([x for x in names if x != 'nop']))
            lines.append(f'{n} {draw(st.integers(0, 255))}')
        return {'kind': 'vocab', 'isa': cfg, 'source': '\n'.join(lines) + '\nnop\n', 'fmt': fmt}
    if draw(st.integers(0, 5)) == 0:
        # one operand set holding several alternatives that all read the same operand text: which of them the tool takes
        # is not the question here - it takes the same one in every run
        pool = {
            'num': {'type': 'numeric', 'bytecode': {'value': 1, 'size': 4}, 'argument': {'size': 8, 'byte_align': True}},
            'rel': {'type': 'relative_address', 'bytecode': {'value': 2, 'size': 4}, 'argument': {'size': 8, 'byte_align': True}},
            'nbc': {'type': 'numeric_bytecode', 'bytecode': {'size': 4, 'min': 0, 'max': 15}},
            'nen': {'type': 'numeric_enumeration', 'bytecode': {'size': 4, 'value_dict': {0: 9, 1: 10, 2: 11, 3: 12, 4: 13, 5: 14}}},
            'adr': {'type': 'address', 'bytecode': {'value': 4, 'size': 4}, 'argument': {'size': 16, 'byte_align': True}},
            'num2': {'type': 'numeric', 'bytecode': {'value': 6, 'size': 4}, 'argument': {'size': 16, 'byte_align': True}},
            'enm': {'type': 'enumeration', 'bytecode': {'size': 4, 'value_dict': {'k1': 7, 'k2': 8}},
                    'argument': {'size': 8, 'byte_align': True, 'value_dict': {'k1': 1, 'k2': 2}}},
        }
        names = list(draw(st.permutations(sorted(pool))))[:draw(st.integers(2, 4))]
        cfg = {'general': {'address_size': 16, 'endian': draw(st.sampled_from(['big', 'little'])), 'registers': ['a', 'hl', 'x']},
               'operand_sets': {'amb': {'operand_values': {n: pool[n] for n in names}}},
               'instructions': {'op': {'bytecode': {'value': 10, 'size': 4}, 'operands': {'count': 1, 'operand_sets': {'list': ['amb']}}},
                                'nop': {'bytecode': {'value': 0, 'size': 8}}}}
        lines = ['k1 = 1', 'k2 = 2', '.org $10']
        for _ in range(draw(st.integers(1, 4))):
            lines.append('op ' + draw(st.sampled_from(['0', '1', '2', '3', '4', '5', 'k1', 'k2'] + ([] if 'nen' in names else ['here', '$12']))))
        lines += ['here:', 'nop']
        return {'kind': 'vocab', 'isa': cfg, 'source': '\n'.join(lines) + '\n', 'fmt': fmt, 'ambiguous_alternatives': names}
    if draw(st.integers(0, 2)) == 0:
        # single statement under a fully generated ISA
        from . import c01
        c = draw(c01._cases(tier))
        if 'skip' in c:
            return {'skip': c['skip']}
        # a vocabulary in which one mnemonic is another one up to a dot and the rest is a mnemonic too (ld / ld.b / b)
        for mn in list(c['isa']['instructions']):
            if '.' in mn and draw(st.booleans()):
                head, tail = mn.split('.', 1)
                for extra in (head, tail):
                    c['isa']['instructions'].setdefault(extra, {'bytecode': {'value': 1, 'size': 8}})
        return {'kind': 'stmt', 'c01': c, 'fmt': fmt}
    cfg = draw(G.layout_isa(zones=True, blocks=True, address_sizes=(8, 12, 16, 16)))
    b, feats = G.general_program(draw, cfg, max_steps=16, extra=['include', 'include', 'include'])
    dirs = {}
    for it in G.flatten(b.items):
        if it['t'] == 'include':
            dirs[it['file']] = draw(st.sampled_from(['src', 'inc_a', 'inc_b', 'inc_a']))
    twist = draw(st.sampled_from([None, None, 'symlink', 'symlink', 'ambiguous', 'ambiguous-identical', 'missing', 'repeated-D', 'tilde', 'tilde']))
    if twist == 'repeated-D':
        # one symbol defined by the ISA and twice more, differently, on the command line: whatever the tool makes of it,
        # it makes the same of it in every run
        cfg.setdefault('predefined', {}).setdefault('symbols', []).append({'name': 'SYMQ', 'value': '7'})
        b.items.append({'t': 'raw', 'text': '.byte SYMQ'})
    if twist == 'tilde':
        # an include directory whose (relative) name begins with a tilde is a directory like any other: what the home
        # directory of the day is changes nothing
        if not dirs:
            b.items.append({'t': 'include', 'file': 'extra.asm', 'items': [{'t': 'comment', 'text': 'nothing here'}]})
            dirs['extra.asm'] = 'inc_a'
        dirs = {k: 'inc_a' for k in dirs}
    if twist == 'symlink':
        # the include directory is reachable under two names: make sure something is included from it, and look
        # at the format that prints file names
        if not dirs:
            b.items.append({'t': 'include', 'file': 'extra.asm', 'items': [{'t': 'comment', 'text': 'nothing here'}]})
            dirs['extra.asm'] = 'inc_a'
        dirs = {k: 'inc_a' for k in dirs}
        fmt = 'listing'
    return {'kind': 'prog', 'isa': cfg, 'items': b.items, 'dirs': dirs, 'twist': twist, 'fmt': fmt,
            'iorder': draw(st.permutations(['inc_a', 'inc_b', 'inc_c']))}


def strategy(tier):
    return _cases(tier)


def _place(items, dirs):
    items = copy.deepcopy(items)
    for it in G.flatten(items):
        if it['t'] == 'include':
            it['path'] = dirs.get(it['file'], 'src') + '/' + it['file']
    return items


def execute(case, ctx):
    if 'skip' in case:
        return Outcome(classes=['skipped'], evals=0)
    window = []
    tier = (ctx or {}).get('tier', 'quick')
    seeds = SEEDS_THOROUGH if tier == 'thorough' else SEEDS_QUICK
    if case['kind'] == 'vocab':
        cfg = case['isa']
        fname, text = isagen.dump_isa(cfg, 'yaml')
        files = {'src/main.asm': case['source'], fname: text}
        idirs = []
        rich = True
    elif case['kind'] == 'stmt':
        from . import c01
        c = case['c01']
        cfg = isagen.fix_int_keys(copy.deepcopy(c['isa']))
        fname, text = isagen.dump_isa(cfg, 'yaml')
        files = {'src/main.asm': c01.build_program(c), fname: text}
        idirs = []
        # the image window around the two placements (the address may be anywhere in a 32-bit space)
        window = ['-s', str(c['placements'][0]['base']), '-e', str(c['placements'][1]['base'] + c['size_intended'] + 1)]
        nreg = len(cfg['general'].get('registers') or [])
        nmn = len(cfg['instructions'])
        rich = nreg >= 3 or nmn >= 2
    else:
        cfg = isagen.fix_int_keys(copy.deepcopy(case['isa']))
        fname, text = isagen.dump_isa(cfg, 'yaml')
        items = _place(case['items'], case['dirs'])
        rendered = G.render_program(items, main='src/main.asm')
        files = dict(rendered)
        files[fname] = text
        incs = sorted(p for p in rendered if p != 'src/main.asm')
        if case['twist'] in ('ambiguous', 'ambiguous-identical') and incs:
            p = incs[0]
            other = 'inc_b/' if not p.startswith('inc_b/') else 'inc_a/'
            # a second file of that name in another include directory (with other or with the very same contents)
            files[other + p.split('/')[-1]] = '.byte 9\n' if case['twist'] == 'ambiguous' else files[p]
        if case['twist'] == 'missing' and incs:
            del files[incs[0]]
        idirs = list(case['iorder'])
        if case['twist'] == 'tilde':
            # inc_a lives in a directory literally called "~"; the other home directory holds files of the same names
            for p in incs:
                if p.startswith('inc_a/'):
                    files['~/' + p] = files.pop(p)
                    files['elsewhere/' + p] = '.byte 9\n'
            incs = sorted(('~/' + p if p.startswith('inc_a/') else p) for p in incs)
            idirs = ['~/inc_a' if d == 'inc_a' else d for d in idirs]
        rich = len({p.split('/')[0] for p in incs}) >= 2 or len(idirs) >= 2
    root = tempfile.mkdtemp(prefix='bvf-c15-', dir=runner.scratch_root())
    try:
        runner._write_files(root, files)
        for d in ('src', 'inc_a', 'inc_b', 'inc_c', 'elsewhere'):
            os.makedirs(os.path.join(root, d), exist_ok=True)
        if idirs and case.get('twist') == 'symlink':
            # inc_l is another name of inc_a
            os.symlink(os.path.join(root, 'inc_a'), os.path.join(root, 'inc_l'))
            idirs = idirs + ['inc_l']
        variants = [('seed' + s, {'PYTHONHASHSEED': s}, idirs, root) for s in seeds]
        variants.append(('rev-I', {'PYTHONHASHSEED': '1'}, list(reversed(idirs)) + idirs[:1], root))
        if idirs:
            # the main file's own directory named as an include directory too, in the middle or at the end
            variants.append(('own-dir-I-mid', {'PYTHONHASHSEED': '1'}, idirs[:1] + ['src'] + idirs[1:], root))
            variants.append(('own-dir-I-last', {'PYTHONHASHSEED': '0'}, list(reversed(idirs)) + ['src'], root))
        if case.get('twist') == 'tilde':
            # the tilde name is relative: every run starts in the same directory, the home directory differs
            variants = [(n, dict(e, HOME=os.path.join(root, 'src')), o, c) for n, e, o, c in variants]
            variants.append(('home', {'PYTHONHASHSEED': '2', 'HOME': os.path.join(root, 'elsewhere')}, idirs, root))
            variants.append(('home-nowhere', {'PYTHONHASHSEED': '2', 'HOME': '/nonexistent'}, idirs, root))
        else:
            variants.append(('cwd', {'PYTHONHASHSEED': '2'}, idirs, os.path.join(root, 'elsewhere')))
        variants.append(('env', {'PYTHONHASHSEED': '3', 'LANG': 'tr_TR.UTF-8', 'LC_ALL': 'C', 'TZ': 'Pacific/Kiritimati',
                                 'ZZZ_EXTRA': 'x', 'COLUMNS': '20', 'PYTHONUTF8': '0'}, idirs, root))
        results = []
        for name, env, order, cwd in variants:
            outdir = os.path.join(root, 'out_' + name)
            os.makedirs(outdir)
            argv = ['compile', '-c', os.path.join(root, fname), '-o', os.path.join(outdir, 'out.bin'),
                    '--pretty-print', '-t', case['fmt'], '--pretty-print-output', os.path.join(outdir, 'pp.txt')]
            argv += window
            if case.get('twist') == 'repeated-D':
                argv += ['-D', 'SYMQ=13', '-D', 'SYMQ=26']
            for d in order:
                argv += ['-I', d if d.startswith('~') else os.path.join(root, d)]
            argv.append(os.path.join(root, 'src/main.asm'))
            e = {k: v for k, v in os.environ.items() if not k.startswith('BESPOKEASM')}
            e.update({'PYTHONPATH': runner.REPO_SRC, 'PYTHONDONTWRITEBYTECODE': '1'})
            e.update(env)
            try:
                p = subprocess.run([runner.PYTHON, '-m', 'bespokeasm'] + argv, cwd=cwd, env=e, stdin=subprocess.DEVNULL,
                                   capture_output=True, timeout=30)
                code = p.returncode
                err = p.stderr.decode(errors='replace')[-300:]
            except subprocess.TimeoutExpired:
                code, err = 'timeout', ''
            outs = {}
            for fn in ('out.bin', 'pp.txt'):
                fp = os.path.join(outdir, fn)
                if os.path.exists(fp):
                    with open(fp, 'rb') as f:
                        outs[fn] = f.read(1 << 20)
            results.append((name, code, outs, err))
    finally:
        shutil.rmtree(root, ignore_errors=True)
    base = results[0]
    findings = []
    if any(r[1] == 'timeout' for r in results):
        # a run that hit the time limit decides nothing about determinism
        return Outcome([], False, ['kind:' + case['kind'], 'inconclusive:a-variant-hit-the-time-limit'], len(results))
    for name, code, outs, err in results[1:]:
        if code != base[1] or outs != base[2]:
            what = 'exit-status' if code != base[1] else ('image' if outs.get('out.bin') != base[2].get('out.bin') else 'pretty-print')
            kind = 'hash-seed' if name.startswith('seed') else 'rev-I' if name.startswith('own-dir-I') else name
            detail = {'sources': {k: v for k, v in files.items() if k.endswith('.asm')}, 'format': case['fmt'],
                      'baseline': {'variant': base[0], 'exit': base[1], 'stderr': base[3],
                                   'outputs': {k: v[:200].hex() for k, v in base[2].items()}},
                      'differs': {'variant': name, 'exit': code, 'stderr': err,
                                  'outputs': {k: v[:200].hex() for k, v in outs.items()}},
                      'include_dirs': idirs}
            findings.append(Finding(f'C15/{what}-differs-between-runs/{kind}', detail))
            break
    klass = 'accepted' if base[1] == 0 else 'rejected'
    classes = ['kind:' + case['kind'], 'fmt:' + case['fmt'], 'outcome:' + klass] + \
              (['same-text-alternatives:' + klass] if case.get('ambiguous_alternatives') else []) + \
              (['twist:' + str(case.get('twist'))] if case['kind'] == 'prog' else [])
    return Outcome(findings, rich, classes, len(results),
                   sample={'sources': {k: v for k, v in files.items() if k.endswith('.asm')}, 'format': case['fmt'],
                           'variants': [r[0] for r in results], 'exit': base[1]})

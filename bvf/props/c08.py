"""C08 - conditional assembly selects exactly the lines of the taken branches.

The source is built as a *history* by a Hypothesis RuleBasedStateMachine: rules append conditional
directives, symbol definitions, markers, labels, constants, zone definitions, mute changes and includes;
whenever the history is balanced (and at teardown, after closing what is open) the current text is
assembled by the real CLI and compared with the reference semantics (conditions evaluated at the moment
their directive is reached; a line contributes iff every enclosing chain selected its branch).
"""
from __future__ import annotations

import copy
import time

import hypothesis
from hypothesis import strategies as st
from hypothesis.stateful import RuleBasedStateMachine, precondition, rule, run_state_machine_as_test

from .. import exprs, proggen as G, refmodel as R, runner
from ..driver import Finding, Outcome, canon, hsettings

ID = 'C08'
LEVEL = 'exploration'
TECHNIQUE = ('stateful property-based testing (Hypothesis RuleBasedStateMachine): directive histories generated rule '
             'by rule with a reference condition-stack model; every balanced prefix is assembled by the real CLI and '
             'its image / exit status compared with the model')
RULE = ('Histories of up to 40 rule steps over: #if (bare / six comparison operators over numerically defined symbols '
        'and literals), #ifdef, #ifndef, #elif, #else, #endif, #define, marker bytes, labels and constants (the same '
        'name may be defined in several branches), #create_memzone + .memzone, #mute/#unmute/#emit, #include of small '
        'files, probes of labels and symbols, and stray #else/#elif/#endif. Every balanced prefix is one evaluation. '
        'Non-trivial = nesting depth >= 2 with an unselected outer branch, or a #define inside a block that changes '
        'the truth of that block\'s own or a later condition, or a chain with more than one true condition, or a '
        'side-effect directive (#define, #create_memzone, #mute, #include, label) inside an unselected branch, or a '
        'stray closer. Distinct = SHA-1 of the canonical item list of the evaluated prefix.')
ASSUMPTIONS = [
    'conditions only mention symbols that are defined with a numeric replacement at that moment (the two requirement '
    'documents contradict each other about undefined symbols)',
    'lines inside unselected branches are syntactically valid (they are still parsed by the tool)',
    'an included file is treated as pasted text: open conditionals and the mute depth continue across the boundary',
    'an #unmute/#emit while nothing is muted has no effect: the mute depth never goes below zero (pinned from the tree, no document states it)',
]
BUDGET = {'quick': 3200, 'thorough': 60000}      # machines; each evaluates several prefixes
LEVEL_TEXT = ('Exploration of directive histories with a stateful generator: the guarantee quantifies over every '
              'directive sequence and definition order; rule-based generation with preconditions reaches deep nesting, '
              'definitions inside the block that tests them, and side effects in unselected branches, and shrinks a '
              'failing history as one value.')
LEVEL_NOTE = ('Trusted: the condition-stack semantics in bvf/refmodel.py Layouter.feed (textbook semantics written from '
              'the property text), Hypothesis stateful engine.')

ISA = {
    'general': {'address_size': 16, 'endian': 'big', 'registers': ['a'], 'identifier': {'name': 'c08-cpu', 'version': '1.2.3'}},
    'operand_sets': {},
    'instructions': {'nop': {'bytecode': {'value': 0xEA, 'size': 8}}},
}
SYMS = ['SYA', 'SYB', 'SYC', 'DEBUG', 'LEVEL', 'level', 'flag', 'idx', 'ena']      # lower-case names are names too
NAMES = ['la', 'lb', 'lc', 'ld_', 'le']
CONSTS = ['ka', 'kb', 'kc']
ZONES = ['ZA', 'ZB', 'ZC']
OPS = ['==', '!=', '>', '>=', '<', '<=']


class Model:
    """Generator-side bookkeeping (what is defined *actively* so that histories stay mostly valid)."""

    def __init__(self):
        self.stack = []          # frames {'parent','taken','active','else'}
        self.syms = {}
        self.flags = set()       # symbols defined without a replacement text
        self.labels = set()
        self.consts = set()
        self.zones = set()
        self.mute = 0
        self.dead = False

    @property
    def active(self):
        return all(f['active'] for f in self.stack)


def eval_cond(c, syms):
    def val(x):
        return syms[x] if isinstance(x, str) else x
    if c['op'] is None:
        return val(c['lhs']) != 0
    return R.CMP[c['op']](val(c['lhs']), val(c['rhs']))


def cond_item(t, c):
    def ast(x):
        if isinstance(x, list):
            return x
        return ['lab', x] if isinstance(x, str) else ['num', x, c.get('notation', 'dec')]
    it = {'t': t, 'lhs': ast(c['lhs'])}
    if c['op'] is not None:
        it['op'] = c['op']
        it['rhs'] = ast(c['rhs'])
        if c.get('rhs_quoted'):
            it['rhs'] = ['num', c['rhs'], 'dec']
            it['rhs_quoted'] = c['rhs_quoted']
    return it


class History(RuleBasedStateMachine):
    acc = None           # set by run_shard
    hunt = None          # {'sig':..., 'best':..., 'deadline':...} in shrink mode

    def __init__(self):
        super().__init__()
        self.items = []
        self.m = Model()
        self.marker = 0
        self.nfile = 0
        self.feats = set()
        self.included = []
        self.checked = 0

    # ---- helpers
    sink = None          # where add() puts items while an included file is being written

    def add(self, it):
        (self.sink if self.sink is not None else self.items).append(it)

    def _cond(self, data, dead):
        if dead and data.draw(st.integers(0, 2)) == 0:
            # nested in a branch that is not compiled: its condition is never consulted, so it may be one that could
            # not be evaluated at all (division by zero, an undefined or value-less symbol)
            self.feats.add('unevaluable-condition-in-unselected')
            zero = sorted(k for k, v in self.m.syms.items() if v == 0)
            bad = [['bin', '/', ['num', 1000, 'dec'], ['num', 0, 'dec']], ['lab', 'NEVER_DEFINED'],
                   ['bin', '%', ['num', 7, 'dec'], ['par', ['bin', '-', ['num', 2, 'dec'], ['num', 2, 'dec']]]]]
            bad += [['bin', '/', ['num', 1000, 'dec'], ['lab', z]] for z in zero]
            bad += [['lab', f] for f in sorted(self.m.flags)]
            lhs = data.draw(st.sampled_from(bad))
            if data.draw(st.booleans()):
                return {'lhs': lhs, 'op': None, 'rhs': None}
            return {'lhs': lhs, 'op': data.draw(st.sampled_from(OPS)), 'rhs': data.draw(st.integers(0, 300))}
        c = self._cond_plain(data)
        c['notation'] = data.draw(st.sampled_from(['dec', 'dec', 'dec0', 'hex$', 'bin%', 'hex0x']))
        if c['notation'] != 'dec':
            self.feats.add('literal-notation:' + c['notation'])
        if c['op'] is not None and isinstance(c['rhs'], int) and data.draw(st.integers(0, 5)) == 0:
            # the number on the right written in quotes: both sides are numeric all the same
            c['rhs_quoted'] = data.draw(st.sampled_from(['"', '"', "'"]))
            self.feats.add('quoted-number-on-the-right')
        return c

    def _cond_plain(self, data):
        nums = sorted(k for k in self.m.syms)
        lhs = data.draw(st.one_of(st.sampled_from(nums), st.integers(0, 3)) if nums else st.integers(0, 3))
        if data.draw(st.integers(0, 2)) == 0:
            return {'lhs': lhs, 'op': None, 'rhs': None}
        rhs = data.draw(st.one_of(st.sampled_from(nums), st.integers(0, 3)) if nums else st.integers(0, 3))
        return {'lhs': lhs, 'op': data.draw(st.sampled_from(OPS)), 'rhs': rhs}

    # ---- rules
    @precondition(lambda self: not self.m.dead and len(self.m.stack) < 4)
    @rule(data=st.data())
    def open_if(self, data):
        c = self._cond(data, not self.m.active)
        parent = self.m.active
        v = eval_cond(c, self.m.syms) if parent else False
        if not parent and self.m.stack:
            self.feats.add('nested-in-unselected')
        self.m.stack.append({'parent': parent, 'taken': v, 'active': parent and v, 'else': False, 'true_count': int(v)})
        self.add(cond_item('if', c))

    @precondition(lambda self: not self.m.dead and len(self.m.stack) < 4)
    @rule(sym=st.sampled_from(SYMS), neg=st.booleans())
    def open_ifdef(self, sym, neg):
        parent = self.m.active
        d = sym in self.m.syms or sym in self.m.flags
        v = (not d if neg else d) if parent else False
        if not parent and self.m.stack:
            self.feats.add('nested-in-unselected')
        self.m.stack.append({'parent': parent, 'taken': v, 'active': parent and v, 'else': False, 'true_count': int(v),
                             'tests': sym})
        self.add({'t': 'ifndef' if neg else 'ifdef', 'name': sym})

    @precondition(lambda self: not self.m.dead and self.m.active and len(self.m.stack) < 4)
    @rule(sym=st.sampled_from(SYMS), val=st.integers(0, 3), mid=st.lists(st.integers(0, 1), min_size=1, max_size=2),
          with_else=st.booleans())
    def guard_chain(self, sym, val, mid, with_else):
        """The include-guard idiom grown into a chain: the selected first branch defines the very symbol it tested, then
        further #elif branches and an #else follow (none of them may be selected)."""
        if sym in self.m.syms or sym in self.m.flags:
            return
        self.open_ifdef(sym, True)
        self.define(sym, val, 'dec')
        History.marker(self)
        for truth in mid:
            self._elif_with({'lhs': truth, 'op': None, 'rhs': None})
            History.marker(self)
        if with_else:
            self.else_()
            History.marker(self)
        self.endif()
        self.feats.add('define-inside-block-that-tests-it')

    def _elif_with(self, c):
        f = self.m.stack[-1]
        if f['parent']:
            v = eval_cond(c, self.m.syms)
            if v and f['taken']:
                self.feats.add('several-true-conditions-in-chain')
            f['active'] = v and not f['taken']
            f['taken'] = f['taken'] or v
        else:
            f['active'] = False
        self.add(cond_item('elif', c))

    @precondition(lambda self: not self.m.dead and self.m.stack and not self.m.stack[-1]['else'])
    @rule(data=st.data())
    def elif_(self, data):
        c = self._cond(data, not self.m.stack[-1]['parent'])
        f = self.m.stack[-1]
        if f['parent']:
            v = eval_cond(c, self.m.syms)
            if v and f['taken']:
                self.feats.add('several-true-conditions-in-chain')
            f['active'] = v and not f['taken']
            f['taken'] = f['taken'] or v
        else:
            f['active'] = False
        self.add(cond_item('elif', c))

    @precondition(lambda self: not self.m.dead and self.m.stack and not self.m.stack[-1]['else'])
    @rule()
    def else_(self):
        f = self.m.stack[-1]
        f['else'] = True
        f['active'] = f['parent'] and not f['taken']
        f['taken'] = True
        self.add({'t': 'else'})

    @precondition(lambda self: not self.m.dead and self.m.stack)
    @rule()
    def endif(self):
        self.m.stack.pop()
        self.add({'t': 'endif'})

    @precondition(lambda self: not self.m.dead)
    @rule(sym=st.sampled_from(SYMS), val=st.one_of(st.integers(0, 3), st.integers(0, 3), st.none()),
          notation=st.sampled_from(['dec', 'dec', 'dec0', 'hex$', 'hex0x', 'bin%']))
    def define(self, sym, val, notation):
        if self.m.active:
            if sym in self.m.syms or sym in self.m.flags:
                return          # a second active definition is C09's business
            if val is None:
                self.m.flags.add(sym)
            else:
                self.m.syms[sym] = val
            if any(f.get('tests') == sym for f in self.m.stack):
                self.feats.add('define-inside-block-that-tests-it')
        else:
            self.feats.add('side-effect-in-unselected:define')
        if val is None:
            self.feats.add('define-without-value')
            self.add({'t': 'define', 'name': sym})
        else:
            self.add({'t': 'define', 'name': sym, 'value': exprs.render_num(val, notation)})

    @precondition(lambda self: not self.m.dead)
    @rule()
    def marker(self):
        self.marker += 1
        self.add({'t': 'data', 'd': '.2byte', 'vals': [['num', self.marker, 'dec']]})

    @precondition(lambda self: not self.m.dead)
    @rule(name=st.sampled_from(NAMES))
    def label(self, name):
        if self.m.active:
            if name in self.m.labels:
                return
            self.m.labels.add(name)
        else:
            self.feats.add('side-effect-in-unselected:label')
        self.add({'t': 'label', 'name': name})

    @precondition(lambda self: not self.m.dead)
    @rule(name=st.sampled_from(CONSTS), val=st.integers(0, 200))
    def constant(self, name, val):
        if self.m.active:
            if name in self.m.consts:
                return
            self.m.consts.add(name)
            self.add({'t': 'const', 'name': name, 'e': ['num', val, 'dec']})
            return
        self.feats.add('side-effect-in-unselected:constant')
        # in a branch that is not compiled the value may mention names that exist only when it is compiled (an earlier
        # constant of the same dead branch), that exist nowhere, or a register
        self.dead_consts = getattr(self, 'dead_consts', [])
        pool = [['num', val, 'dec'], ['bin', '+', ['lab', 'nowhere_defined'], ['num', 1, 'dec']], ['lab', 'a']]
        pool += [['bin', '+', ['lab', n], ['num', val, 'dec']] for n in self.dead_consts]
        self.add({'t': 'const', 'name': name, 'e': pool[val % len(pool)]})
        self.dead_consts.append(name)

    @precondition(lambda self: not self.m.dead and (self.m.labels or self.m.consts or self.m.syms))
    @rule(data=st.data())
    def probe(self, data):
        pool = sorted(self.m.labels | self.m.consts | set(self.m.syms))
        n = data.draw(st.sampled_from(pool))
        self.add({'t': 'data', 'd': '.2byte', 'vals': [['lab', n]]})

    @precondition(lambda self: not self.m.dead)
    @rule(name=st.sampled_from(ZONES), base=st.integers(1, 6))
    def create_zone(self, name, base):
        if self.m.active:
            if name in self.m.zones:
                return
            self.m.zones.add(name)
        else:
            self.feats.add('side-effect-in-unselected:create_memzone')
        s = 0x1000 * base + (ZONES.index(name) * 0x100)
        self.add({'t': 'createzone', 'name': name, 'start': s, 'end': s + 0xFF})

    @precondition(lambda self: not self.m.dead and self.m.zones and self.m.active)
    @rule(data=st.data())
    def use_zone(self, data):
        z = data.draw(st.sampled_from(sorted(self.m.zones) + ['GLOBAL']))
        self.add({'t': 'memzone', 'zone': z})
        self.marker += 1
        self.add({'t': 'data', 'd': '.2byte', 'vals': [['num', self.marker, 'dec']]})

    @precondition(lambda self: not self.m.dead)
    @rule(un=st.booleans(), kw=st.sampled_from(['unmute', 'emit']))
    def mute(self, un, kw):
        if not self.m.active:
            self.feats.add('side-effect-in-unselected:mute')
        else:
            self.m.mute = max(0, self.m.mute - 1) if un else self.m.mute + 1
        self.add({'t': 'unmute', 'kw': kw} if un else {'t': 'mute', 'kw': 'mute'})

    @precondition(lambda self: not self.m.dead)
    @rule(which=st.sampled_from(['c08-cpu', 'c08-cpu >= 1.0.0', 'c08-cpu == 1.2.3', 'other-cpu', 'c08-cpu >= 2.0.0', 'c08-cpu < 1.2.3']))
    def require(self, which):
        met = which in ('c08-cpu', 'c08-cpu >= 1.0.0', 'c08-cpu == 1.2.3')
        if self.m.active and not met:
            return          # an unmet requirement in a compiled branch ends the assembly: C19's business
        if not self.m.active:
            self.feats.add('side-effect-in-unselected:require' + ('' if met else '-unmet'))
        self.add({'t': 'require', 'text': which, 'met': met})

    @precondition(lambda self: not self.m.dead and self.nfile < 3)
    @rule(n=st.integers(1, 3), tail=st.sampled_from([None, None, 'else', 'endif', 'mute', 'unmute']),
          dead_kind=st.sampled_from(['fresh', 'again', 'absent']))
    def include(self, n, tail, dead_kind):
        was_active = self.m.active
        if not self.m.active:
            # not compiled: the directive is inert, whatever it names (a file included before, a file that does not exist)
            self.feats.add('side-effect-in-unselected:include')
            if dead_kind == 'again' and self.included:
                self.add(copy.deepcopy(self.included[0]))
                self.feats.add('side-effect-in-unselected:include-of-a-file-included-before')
                return
            if dead_kind == 'absent':
                self.add({'t': 'include', 'file': 'nowhere.asm', 'items': [], 'absent': True})
                self.feats.add('side-effect-in-unselected:include-of-an-absent-file')
                return
        self.nfile += 1
        sub = []
        for _ in range(n):
            self.marker += 1
            sub.append({'t': 'data', 'd': '.2byte', 'vals': [['num', self.marker, 'dec']]})
        if self.m.mute:
            self.feats.add('include-while-muted')
        item = {'t': 'include', 'file': f'inc{self.nfile}.asm', 'items': sub}
        if was_active and tail is not None:
            # the included file ends in a directive that changes the state it shares with its includer
            self.sink = sub
            try:
                if tail == 'else' and self.m.stack and not self.m.stack[-1]['else']:
                    self.else_()
                    self.feats.add('included-file-ends-in:else')
                elif tail == 'endif' and self.m.stack:
                    self.endif()
                    self.feats.add('included-file-ends-in:endif')
                elif tail in ('mute', 'unmute'):
                    self.mute(tail == 'unmute', 'emit')
                    self.feats.add('included-file-ends-in:' + tail)
            finally:
                self.sink = None
        self.add(item)
        if was_active:
            self.included.append(item)

    @precondition(lambda self: not self.m.dead and not self.m.stack and self.items)
    @rule(kind=st.sampled_from(['else', 'endif', 'elif']), gate=st.integers(0, 7))
    def stray_closer(self, kind, gate):
        if gate:
            return
        self.feats.add('stray-closer')
        self.add({'t': kind, 'lhs': ['num', 1, 'dec']} if kind == 'elif' else {'t': kind})
        self.m.dead = True

    @precondition(lambda self: not self.m.stack and self.items and self.checked < 6)
    @rule()
    def check_now(self):
        self._check()

    @rule()
    def idle(self):
        pass

    def teardown(self):
        while self.m.stack and not self.m.dead:
            self.m.stack.pop()
            self.items.append({'t': 'endif'})
        if self.items:
            self._check()

    def _check(self):
        self.checked += 1
        case = {'items': copy.deepcopy(self.items), 'feats': sorted(self.feats)}
        out = execute(case, {})
        if History.acc is not None:
            History.acc.add(case, out)
        h = History.hunt
        if h is not None:
            if time.monotonic() > h['deadline']:
                raise KeyboardInterrupt()
            for f in out.findings:
                if f.sig == h['sig']:
                    size = len(canon(case))
                    if size < h['best']['size']:
                        h['best'].update(size=size, case=case, detail=f.detail)
                    raise AssertionError(f.sig)


def run_shard(acc):
    History.acc = acc
    History.hunt = None
    run_state_machine_as_test(hypothesis.seed(acc.seed)(History), settings=_settings(acc.n))


def _settings(n, shrink=False):
    s = hsettings(n, shrink)
    return hypothesis.settings(s, stateful_step_count=40)


def shrink(tier, seed, n, sig, initial, budget_s):
    best = {'size': len(canon(initial[1])), 'case': initial[1], 'detail': initial[2]}
    History.acc = None
    History.hunt = {'sig': sig, 'best': best, 'deadline': time.monotonic() + budget_s}
    try:
        run_state_machine_as_test(hypothesis.seed(seed)(History), settings=_settings(n, shrink=True))
    except BaseException:
        pass
    History.hunt = None
    return best


def classify(items, lay_feats):
    return set(lay_feats)


def execute(case, ctx):
    items = copy.deepcopy(case['items'])
    # a final sentinel makes "nothing emitted" observable
    for _ in range(sum(1 for it in G.flatten(items) if it['t'] == 'mute')):
        items.append({'t': 'unmute', 'kw': 'unmute'})
    items.append({'t': 'memzone', 'zone': 'GLOBAL'})
    items.append({'t': 'data', 'd': '.2byte', 'vals': [['num', 0xEEEE, 'hex$']]})
    isa = R.Isa(ISA)
    import json
    files = G.render_program(items)
    files['isa.json'] = json.dumps(ISA)
    feats = set(case.get('feats', []))
    try:
        verdict, lay = R.layout_program(isa, items)
        if verdict == 'accepted':
            hi = max(lay.memory)
            want = lay.image(0, hi, 0)
        else:
            hi, want = 16, None
    except R.Unspecified as u:
        return Outcome(classes=['unspecified:' + str(u).split(':')[0]], evals=0, excluded=['unspecified: ' + str(u).split(':')[0]])
    argv = ['compile', '-c', 'isa.json', '-o', 'out.bin', '-s', '0', '-e', str(hi), 'main.asm']
    res = runner.run_forked(argv, files)
    detail = {'sources': {k: v for k, v in files.items() if k.endswith('.asm')}, 'features': sorted(feats),
              'model': verdict if verdict == 'accepted' else 'rejected: ' + lay, 'run': res.brief(), 'argv': argv}
    findings = []
    side = sorted(f.split(':')[1] for f in feats if f.startswith('side-effect-in-unselected:'))
    if 'stray-closer' in feats:
        tag = 'stray-closer'
    elif side:
        tag = 'side-effect-in-unselected-branch:' + side[0]
    elif 'nested-in-unselected' in feats:
        tag = 'nested-in-unselected-branch'
    elif 'define-inside-block-that-tests-it' in feats:
        tag = 'define-inside-block-that-tests-it'
    elif 'include-while-muted' in feats:
        tag = 'include-while-muted'
    else:
        tag = 'flat'
    if res.klass == 'timeout':
        findings.append(Finding('C08/timeout', detail))
    elif verdict == 'accepted' and res.klass != 'accepted':
        findings.append(Finding('C08/valid-history-rejected/' + tag, detail))
    elif verdict != 'accepted' and res.klass == 'accepted':
        findings.append(Finding('C08/invalid-history-accepted/' + tag, detail))
    elif verdict == 'accepted':
        detail['expected_image'] = want.hex() if len(want) < 400 else f'<{len(want)} bytes> ...' + want[-16:].hex()
        if res.outputs.get('out.bin') != want:
            findings.append(Finding('C08/wrong-lines-selected/' + tag, detail))
    nt = bool(feats & {'nested-in-unselected', 'define-inside-block-that-tests-it', 'several-true-conditions-in-chain',
                       'stray-closer'}) or bool(side)
    depth = 0
    maxd = 0
    for it in case['items']:
        if it['t'] in ('if', 'ifdef', 'ifndef'):
            depth += 1
            maxd = max(maxd, depth)
        elif it['t'] == 'endif':
            depth -= 1
    classes = ['model:' + verdict, 'outcome:' + res.klass, 'depth:%d' % maxd] + ['feat:' + f for f in sorted(feats)]
    return Outcome(findings, nt, classes, 1, sample={'sources': detail['sources'], 'model': detail['model']})

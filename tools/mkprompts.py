import json, os, re, sys, glob
tmpl = open('/verif/tools/agent_prompt_template_C01.txt').read()
props = {json.loads(l)['id']: json.loads(l) for l in open('/verif/properties.jsonl')}
p1 = props['C01']
head, rest = tmpl.split('The semantic property under study:\n')
_, tail = rest.split('This is a third round:')
for pid in sys.argv[1:]:
    p = props[pid]
    ex = []
    for d in sorted(glob.glob(f'/verif/seeded/{pid}-m*')):
        n = open(d + '/notes.md').read().strip().replace('\n', ' ')
        ex.append('  - ' + n[:330])
    body = f"\n{pid} — {p['title']}\n\n{p['statement']}\n\nQuantified over: {p.get('quantified_over') or p.get('quantifier') or ''}\n\n\n"
    body += "Seeded defects that already exist for this property - do NOT repeat these or close variants of them:\n" + '\n'.join(ex) + '\n\n'
    text = head + 'The semantic property under study:\n' + body + 'This is a further round:' + tail
    text = text.replace('C01', pid) if False else text.replace('/tmp/wt_C01', f'/tmp/wt_{pid}')
    open(f'/tmp/agent4_{pid}.txt', 'w').write(text)
    print(pid, len(text))

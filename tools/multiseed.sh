#!/bin/bash
# usage: tools/multiseed.sh "<seeds>" [tier] [ids...]  - runs every check at several VERIF_SEED values; prints one line per run.
# Evidence/replays go to a scratch directory so the committed evidence is not touched.
SEEDS=${1:-"2 3 4 5 6"}; TIER=${2:-quick}; shift 2
IDS=${@:-C01 C02 C03 C04 C05 C06 C07 C08 C09 C10 C11 C12 C13 C14 C15 C16 C17 C18 C19 C20}
cd "$(dirname "$0")/.."
for s in $SEEDS; do for id in $IDS; do
  out=$(VERIF_OUT_DIR=/tmp/multiseed/$s VERIF_SEED=$s ./check $id --tier $TIER 2>&1); rc=$?
  echo "seed=$s $id rc=$rc $(echo "$out" | tail -1)"
  if [ $rc -ne 0 ]; then echo "$out" | grep -E 'VIOLATION|signature|HARNESS' | head -6; fi
done; done

#!/bin/bash
# usage: tools/thorough_all.sh ids...   - thorough tier, scratch outputs (evidence is produced separately in /verif)
cd "$(dirname "$0")/.."
for id in "$@"; do
  out=$(VERIF_OUT_DIR=/tmp/thorough VERIF_SEED=${VERIF_SEED:-1} ./check $id --tier thorough 2>&1); rc=$?
  echo "$id rc=$rc $(echo "$out" | tail -1)"
  [ $rc -ne 0 ] && echo "$out" | grep -E 'VIOLATION|signature|HARNESS' | head -8
done

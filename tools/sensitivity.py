#!/venv/bin/python
"""Re-verifies every seeded change (applies, 81 tests pass, demo fails with / passes without) in a scratch worktree,
runs the designated checks against a patched scratch copy of /repo, writes seeded/<name>/meta.json and SENSITIVITY.md.
usage: tools/sensitivity.py [name ...]"""
import json
import os
import re
import subprocess
import sys
import time

HERE = os.path.dirname(os.path.dirname(os.path.abspath(__file__)))
os.chdir(HERE)
PLAN = json.load(open('seeded/checks.json'))
names = sys.argv[1:] or sorted(PLAN)
props = {json.loads(l)['id']: json.loads(l) for l in open('properties.jsonl')}
for name in names:
    d = f'seeded/{name}'
    if not os.path.isdir(d):
        continue
    pid = name.split('-')[0]
    ver = json.loads(subprocess.run(['tools/verify_seed.sh', d], capture_output=True, text=True).stdout.strip().splitlines()[-1])
    det = []
    for chk in PLAN[name]:
        out = f'/tmp/mutout/{name}-{chk}'
        subprocess.run(['rm', '-rf', out])
        os.makedirs(out)
        t0 = time.time()
        env = dict(os.environ, VERIF_OUT_DIR=out, VERIF_NO_SHRINK='1')
        p = subprocess.run(['tools/with_patch.sh', f'{d}/patch.diff', './check', chk, '--tier', 'quick'], capture_output=True, text=True, env=env)
        sigs = re.findall(r'signature=(\S+)', p.stdout)
        det.append({'check': chk, 'tier': 'quick', 'exit': p.returncode, 'violation_lines': p.stdout.count('VIOLATION property='),
                    'signatures': sorted(set(sigs))[:6], 'wall_s': round(time.time() - t0, 1)})
    notes = open(f'{d}/notes.md').read().strip()
    meta = {
        'name': name, 'property_broken': pid, 'property_title': props[pid]['title'],
        'origin': 'written by an independent sub-agent that saw only the property text and a scratch worktree of /repo',
        'what_it_needs_to_manifest': notes[:1500],
        'confirmed': {'patch_applies_to_repo_head': ver.get('applies'), 'existing_tests_with_patch': ver.get('tests_with_patch'),
                      'demo_exit_with_patch': ver.get('demo_exit_with_patch'), 'demo_exit_without_patch': ver.get('demo_exit_clean'),
                      'how': 'tools/verify_seed.sh (scratch git worktree of /repo HEAD, removed afterwards)',
                      'repo_head': subprocess.run(['git', '-C', '/repo', 'rev-parse', '--short', 'HEAD'], capture_output=True, text=True).stdout.strip()},
        'checks_run_against_it': det,
        'detected': any(x['violation_lines'] > 0 for x in det),
    }
    json.dump(meta, open(f'{d}/meta.json', 'w'), indent=1)
    print(name, 'detected' if meta['detected'] else 'MISSED', [(x['check'], x['violation_lines']) for x in det], ver, flush=True)

rows = []
for name in sorted(PLAN):
    f = f'seeded/{name}/meta.json'
    if os.path.exists(f):
        m = json.load(open(f))
        first = m['what_it_needs_to_manifest'].replace('\n', ' ')
        first = re.sub(r'^#+\s*', '', first)[:170]
        by = ', '.join(f"{x['check']} ({x['violation_lines']} sig, {x['wall_s']}s)" for x in m['checks_run_against_it'] if x['violation_lines'])
        miss = ', '.join(x['check'] for x in m['checks_run_against_it'] if not x['violation_lines'])
        rows.append(f"| {name} | {first} | {by or '-'} | {miss or '-'} |")
with open('SENSITIVITY.md', 'w') as f:
    f.write('# Sensitivity: seeded changes vs checks (quick tier, VERIF_SEED=1)\n\n'
            'Every change below was written by an independent sub-agent from the property text and a scratch worktree of the repository (the sub-agents of the fourth round also read the checks and aimed at what they did not generate, DESIGN.md 11.2), compiles, passes the 81 '
            'existing tests, and comes with a demonstration that fails with it and passes without it (re-confirmed by '
            '`tools/verify_seed.sh`). `tools/sensitivity.py` regenerates this table.\n\n'
            '| seeded change | what it is / needs | caught by (quick tier) | run but quiet |\n|---|---|---|---|\n' + '\n'.join(rows) + '\n')
print('SENSITIVITY.md written:', len(rows), 'rows')

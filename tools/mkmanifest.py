#!/venv/bin/python
"""Regenerates MANIFEST.json from the property modules' metadata (ID, LEVEL, TECHNIQUE, LEVEL_TEXT, LEVEL_NOTE)."""
import importlib
import json
import os
import sys

HERE = os.path.dirname(os.path.dirname(os.path.abspath(__file__)))
sys.path.insert(0, HERE)
ALL = [f'C{i:02d}' for i in range(1, 21)]

SETUP = ("/venv/bin/python -c 'import hypothesis, yaml' 2>/dev/null || "
         "/venv/bin/pip install --no-index --find-links /opt/veriftools/wheels hypothesis pyyaml; "
         "(test -d .deps/atheris || /venv/bin/pip install -q --no-index --find-links /opt/veriftools/wheels --target .deps atheris "
         "|| echo 'atheris not installed: the coverage-guided campaign of C07 will be skipped'); "
         "/venv/bin/python -c 'import hypothesis, yaml, bespokeasm; print(\"setup ok\", hypothesis.__version__)'")

checks = []
na = []
for pid in ALL:
    path = os.path.join(HERE, 'bvf', 'props', pid.lower() + '.py')
    if not os.path.exists(path):
        na.append({'property_id': pid, 'reason': 'check not built yet in this session (planned in DESIGN.md section 4); '
                   'the technique applies, nothing is claimed until the check exists'})
        continue
    m = importlib.import_module(f'bvf.props.{pid.lower()}')
    checks.append({
        'property_id': pid,
        'quick_cmd': f'./check {pid} --tier quick',
        'thorough_cmd': f'./check {pid} --tier thorough',
        'evidence_file': f'evidence/{pid}.json',
        'replay_cmd_template': f'./check {pid} --replay {{path}}',
        'engine': 'bvf',
        'level_claimed': {'category': m.LEVEL, 'text': m.LEVEL_TEXT, 'design_ref': f'DESIGN.md section 4 ({pid})'},
        'level_note': m.LEVEL_NOTE,
        'technique': m.TECHNIQUE,
    })

manifest = {
    'version': 1,
    'setup_cmd': SETUP,
    'hooks': {
        'guard': 'BESPOKEASM_VERIF',
        'enable': 'no source hooks exist: every property is observed through the real command line '
                  '(exit status, output files); the guard name is reserved and unused',
        'baseline_off_cmd': 'cd /repo && /venv/bin/python -m pytest -ra -q -p no:cacheprovider --timeout=900 '
                            '--continue-on-collection-errors',
        'source_commits': [],
        'add_only': True,
    },
    'engines': [{
        'name': 'bvf', 'path': 'bvf/', 'serves_properties': [c['property_id'] for c in checks],
        'kind_free_text': 'Hypothesis-driven generators (ISA definitions, programs, command lines, histories) + '
                          'independent reference model / metamorphic oracles, fork-per-case runner of the real CLI, '
                          'survey-then-shrink driver with replay files',
    }],
    'checks': checks,
    'not_applicable': na,
    'notes': 'All checks: ./check <ID> --tier quick|thorough, VERIF_SEED honoured, evidence rewritten each run, '
             'exit 2 = harness error (never a verdict). Known findings: known_findings.json (read-only at run time).',
}
with open(os.path.join(HERE, 'MANIFEST.json'), 'w') as f:
    json.dump(manifest, f, indent=1)
print('MANIFEST.json:', len(checks), 'checks;', len(na), 'not yet claimed')

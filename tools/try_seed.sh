#!/bin/bash
# usage: tools/try_seed.sh <seeded dir> <check id> [tier]   -> runs the check against the patched scratch copy
D=$1; ID=$2; TIER=${3:-quick}
OUT=/tmp/mutout/$(basename $D)-$ID
rm -rf $OUT; mkdir -p $OUT
cd /verif
VERIF_OUT_DIR=$OUT tools/with_patch.sh $D/patch.diff ./check $ID --tier $TIER > $OUT/log 2>&1
echo "$(basename $D) vs $ID ($TIER): exit=$? $(grep -c '^VIOLATION' $OUT/log) violation lines; $(grep -m1 signature= $OUT/log)"

#!/bin/bash
# usage: tools/collect_seed.sh <ID>...   - copies /tmp/wt_<ID>/_seed/m{1,2} into the next free seeded/<ID>-mN, verifies, removes the worktree
cd "$(dirname "$0")/.."
for id in "$@"; do
  for m in 1 2; do
    [ -d /tmp/wt_$id/_seed/m$m ] || continue
    n=1; while [ -e seeded/$id-m$n ]; do n=$((n+1)); done
    d=seeded/$id-m$n; mkdir -p $d; cp /tmp/wt_$id/_seed/m$m/{patch.diff,demo.py,notes.md} $d/
    echo "$d: $(tools/verify_seed.sh $d)"
  done
  git -C /repo worktree remove --force /tmp/wt_$id
done

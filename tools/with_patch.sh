#!/bin/bash
# usage: tools/with_patch.sh [-R] <patch.diff> <command...>
# Runs <command> (e.g. ./check C01 --tier quick) against a scratch copy of /repo (HEAD working tree) with the patch
# applied; nothing in /repo is touched. The copy lives under /tmp and is removed afterwards.
set -u
REV=""
if [ "$1" = "-R" ]; then REV="-R"; shift; fi
PATCH=$(realpath "$1"); shift
D=$(mktemp -d /tmp/bvf-mut-XXXXXX)
trap 'rm -rf "$D"' EXIT
mkdir -p "$D/repo"
( cd /repo && git ls-files -z src | xargs -0 cp --parents -t "$D/repo" )
( cd "$D/repo" && patch $REV -p1 -s --no-backup-if-mismatch < "$PATCH" ) || { echo "patch failed to apply"; exit 3; }
VERIF_REPO_SRC="$D/repo/src" "$@"

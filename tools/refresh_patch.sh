#!/bin/bash
# usage: tools/refresh_patch.sh seeded/<name>  - re-creates patch.diff against /repo HEAD when the stored hunk offsets went stale
# (applies it with `patch` fuzz in a scratch worktree, stores `git diff`, re-verifies)
D=$(realpath "$1"); WT=$(mktemp -d /tmp/bvf-refresh-XXXXXX); rmdir $WT
git -C /repo worktree add -q --detach $WT HEAD || exit 3
( cd $WT && patch -p1 -s --no-backup-if-mismatch < $D/patch.diff && git diff -- src > $D/patch.diff.new ); rc=$?
git -C /repo worktree remove --force $WT
[ $rc -eq 0 ] && mv $D/patch.diff.new $D/patch.diff && echo "refreshed $(basename $D): $(/verif/tools/verify_seed.sh $D)"

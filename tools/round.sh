#!/bin/bash
# usage: tools/round.sh <ID>...  - collects /tmp/wt_<ID>/_seed/m{1,2} (collect_seed.sh), registers the new directories in
# seeded/checks.json with the property's own check, and runs the sensitivity tool for them
cd "$(dirname "$0")/.."
for id in "$@"; do
  before=$(ls -d seeded/$id-m* 2>/dev/null | sort)
  tools/collect_seed.sh $id
  new=$(comm -13 <(echo "$before") <(ls -d seeded/$id-m* | sort) | xargs -n1 basename)
  /venv/bin/python - $id $new <<'P'
import json, sys
d = json.load(open('seeded/checks.json'))
for n in sys.argv[2:]:
    d.setdefault(n, [sys.argv[1]])
json.dump(d, open('seeded/checks.json', 'w'), indent=1, sort_keys=True)
P
  tools/sensitivity.py $new | grep -v 'SENSITIVITY.md written'
done

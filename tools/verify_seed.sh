#!/bin/bash
# usage: tools/verify_seed.sh <seeded/ID-name dir>
# Confirms, in a scratch git worktree of /repo HEAD (removed afterwards): patch applies, the 81 tests pass with it,
# demo.py exits 1 with the patch and 0 without.  Prints a JSON line with the results.
set -u
DIR=$(realpath "$1")
WT=$(mktemp -d /tmp/bvf-seedwt-XXXXXX)
rmdir "$WT"
git -C /repo worktree add -q --detach "$WT" HEAD || exit 3
cleanup() { git -C /repo worktree remove --force "$WT" >/dev/null 2>&1; rm -rf "$WT"; }
trap cleanup EXIT
cd "$WT"
PYTHONPATH="$WT/src" timeout 120 /venv/bin/python "$DIR/demo.py" >/tmp/seed_demo_clean.out 2>&1; CLEAN=$?
if ! git apply --check "$DIR/patch.diff" 2>/dev/null; then echo "{\"applies\": false}"; exit 0; fi
git apply "$DIR/patch.diff"
TESTS=$(timeout 600 /venv/bin/python -m pytest -q -p no:cacheprovider 2>&1 | tail -1)
PYTHONPATH="$WT/src" timeout 120 /venv/bin/python "$DIR/demo.py" >/tmp/seed_demo_mut.out 2>&1; MUT=$?
echo "{\"applies\": true, \"tests_with_patch\": \"$TESTS\", \"demo_exit_with_patch\": $MUT, \"demo_exit_clean\": $CLEAN}"

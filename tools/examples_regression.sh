#!/bin/bash
# Assembles every example program shipped with the repository with the ORIGINAL sources (commit 465b908, before any
# "fix:" commit) and with the current /repo working tree, all four pretty-print formats, and compares the outputs.
# Differences are expected only where a fixed defect shows (e.g. minhex address lines); the binary images must agree.
set -u
ORIG=$(mktemp -d /tmp/bvf-orig-XXXXXX); trap 'rm -rf "$ORIG" /tmp/exreg' EXIT
git -C /repo archive 465b908 src | tar -x -C "$ORIG"
mkdir -p /tmp/exreg
cd /repo/examples
declare -A CFG=( [min64]=slu4-minimal-64/slu4-minimal-64.yaml [min64x4]=slu4-minimal-64x4/slu4-minimal-64x4.yaml
  [kb1]=kenbak-1/kenbak-1-isa.yaml [sap1]=ben-eater-sap1/eater-sap1-isa.yaml [min-asm]=slu4-minimal-cpu/slu4-minimal-cpu.yaml )
for f in $(find . -type f \( -name '*.min64' -o -name '*.min64x4' -o -name '*.kb1' -o -name '*.sap1' -o -name '*.min-asm' \) | sort); do
  ext=${f##*.}; cfg=${CFG[$ext]}
  for which in orig new; do
    src=$ORIG/src; [ $which = new ] && src=/repo/src
    out=/tmp/exreg/$which; mkdir -p $out
    PYTHONPATH=$src timeout 300 /venv/bin/python -m bespokeasm compile -c $cfg -o $out/o.bin -p -t listing --pretty-print-output $out/o.lst $f > $out/log 2>&1; echo $? > $out/rc
    PYTHONPATH=$src timeout 300 /venv/bin/python -m bespokeasm compile -c $cfg -n -p -t intel_hex --pretty-print-output $out/o.hex $f >> $out/log 2>&1
  done
  rc1=$(cat /tmp/exreg/orig/rc); rc2=$(cat /tmp/exreg/new/rc)
  bin=same; cmp -s /tmp/exreg/orig/o.bin /tmp/exreg/new/o.bin || bin=DIFFERENT
  hex=same; cmp -s /tmp/exreg/orig/o.hex /tmp/exreg/new/o.hex || hex=DIFFERENT
  lst=same; cmp -s /tmp/exreg/orig/o.lst /tmp/exreg/new/o.lst || lst=differs
  echo "$f rc=$rc1/$rc2 image=$bin intel_hex=$hex listing=$lst size=$(stat -c %s /tmp/exreg/new/o.bin 2>/dev/null)"
  rm -f /tmp/exreg/*/o.*
done
